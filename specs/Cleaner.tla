------------------------------- MODULE Cleaner -------------------------------
(***************************************************************************)
(* The spec cleaner of insights-core (insights/cleaner/*.py,                *)
(* insights/core/spec_factory.py ContentProvider._clean_content / write).   *)
(*                                                                         *)
(* One behaviour = one collection run: a Cleaner instance is created        *)
(* (NewCleaner, which also fixes the obfuscator application order:          *)
(* ChooseOrder), then specs are cleaned one after the other (BeginSpec,     *)
(* one CleanLine step per line, bottom-up as the code does, EndSpec), then  *)
(* the mapping is reported (Report).  Rerun starts a fresh cleaner on the   *)
(* same content and configuration (C10: cleaning is a function).            *)
(*                                                                         *)
(* A line is a sequence of tokens.  A token has a kind, an id inside the    *)
(* kind's universe and the classes of the characters to its left and        *)
(* right.  Substitutes are opaque numbers: the properties demand            *)
(* consistency / injectivity / exact reporting, never a particular text.    *)
(*                                                                         *)
(* Properties C08, C09, C10 of /verif/properties.jsonl are the invariants   *)
(* and the action property at the end of the module.                        *)
(***************************************************************************)
EXTENDS Naturals, Sequences, FiniteSets, TLC

CONSTANTS
    Kinds,          \* token kinds explored, subset of AllKinds
    NIp, NDom, NMac, NKw, NPat,     \* universe sizes per kind
    NIp6,           \* IPv6 addresses
    NAk,            \* keys of the allow list
    V6Set,          \* subset of BOOLEAN: obfuscate_ipv6
    NoFqdnSet,      \* subset of BOOLEAN: the cleaner is built without an explicit fqdn (as insights/collect.py does)
    DnameSet,       \* subset of BOOLEAN: a display_name (inventory label) is configured
    DelSet,         \* delimiter classes explored, subset of AllDel
    MaxTok,         \* tokens per line
    MaxLines,       \* lines per spec
    MaxSpecs,       \* specs per cleaner instance
    TotLines,       \* lines per cleaner instance
    ObfSet, HostSet, MacSet,        \* subsets of BOOLEAN: obfuscate, obfuscate_hostname, obfuscate_mac
    KwSets, PatSets,                \* sets of configured keyword / pattern index sets
    RegexSet,       \* subset of BOOLEAN: patterns in regular-expression form
    SysDomSet,      \* subset of BOOLEAN: the system name has a domain part
    NoRedSet,       \* subset of BOOLEAN: per-spec no_redact
    NoObfSets,      \* set of per-spec no_obfuscate sets
    WidthSet,       \* subset of BOOLEAN: per-spec fixed-width mode (the netstat spec)
    AllowSet,       \* subset of Nat: 0 = no allow list, n > 0 = allow list {key 1 : max_match n} (filterable spec)
    FamSet,         \* concretisation families, subset of AllFam
    AllowBlank,     \* BOOLEAN: blank lines in the content
    Runs,           \* fresh-cleaner runs of the same case
    AllOrders,      \* BOOLEAN: ChooseOrder ranges over every permutation (else one representative)
    FreeOrder       \* BOOLEAN: every run picks its own order (demonstration config only)

AllKinds == {"text", "ip", "ip6", "loop", "short", "fqdn", "dom", "mac", "nullmac", "kw", "pat", "pw", "akey"}
(* delimiter classes: line start / end, white space, punctuation (never    *)
(* ':' '-' '.' '_'), ':' , '-', a dot with digits ('.443' on the right,      *)
(* '7.' on the left), a letter or '_', a digit (for a MAC: a hex digit)     *)
AllDel   == {"edge", "space", "punct", "colon", "dash", "dotnum", "alpha", "digit"}
Obfs     == {"hostname", "ip", "keyword", "mac", "password"}     \* + "ipv6", which competes with nobody: applied right after "ip"
(* Families say what the driver puts underneath the ids:                    *)
(*   plain   values that cannot collide with anything the obfuscators issue *)
(*   prefix  ip 1 is a textual prefix of ip 2                               *)
(*   collide ip/dom/mac id j is the text of the j-th substitute issued      *)
(*   suffix  dom 1 is a textual suffix of dom 2                             *)
(*   kwdom   keyword 1 is a label of the system's domain (two obfuscators   *)
(*           compete for every name of the domain)                          *)
(*   pwip    the secret after a password key is the address ip 1            *)
(*   kwhost  keyword 1 is a part of the host label of dom 1                 *)
(*   kwsub   keyword 1 is a part of keyword 2 (secret / topsecret); kwsup: 2 of 1 *)
(*   vt      plain text contains a character that some line splitters take for a line end  *)
(*           (vertical tab, form feed, FS..RS, NEL, U+2028): a line is what ends in a newline *)
(*   v6lb    an IPv6 address with punctuation on its left has ] ^ or ` there *)
(*   eqlen   the domain hosts have names of equal length (ties in a        *)
(*           longest-first treatment), the highest id may be longer        *)
AllFam   == {"plain", "prefix", "collide", "suffix", "kwdom", "kwhost", "pwip", "eqlen", "v6lb", "kwsub", "kwsup", "vt"}

VARIABLES
    phase,      \* "new" | "idle" | "spec" | "done"
    cf,         \* configuration of the cleaner instance
    ord,        \* sequence of obfuscators: the application order
    run,        \* 1..Runs
    content,    \* Seq of [sp, lines]: what was fed so far (run 1) / is replayed (later runs)
    si,         \* specs begun in this run
    cur,        \* [i, acc]: next line to process (bottom-up), processed lines
    db,         \* [set of <<group, original>> -> substitute]
    seen,       \* set of <<group, original>> that occurred in the content of this run
    cnt,        \* substitutes issued so far
    outs,       \* Seq of [out, stored]: finished specs of this run
    report,     \* set of <<group, original, substitute>> | {} before Report
    runs        \* Seq of [ord, outs]: finished runs

vars == <<phase, cf, ord, run, content, si, cur, db, seen, cnt, outs, report, runs>>

-----------------------------------------------------------------------------
IdsOf(k) == CASE k = "ip"  -> 1..NIp
              [] k = "dom" -> 1..NDom
              [] k = "mac" -> 1..NMac
              [] k = "kw"  -> 1..NKw
              [] k = "pat" -> 1..NPat
              [] k = "ip6" -> 1..NIp6
              [] k = "akey" -> 1..NAk
              [] OTHER     -> {0}
TokSet  == UNION {{[k |-> k, id |-> i, l |-> l, r |-> r] : i \in IdsOf(k), l \in DelSet, r \in DelSet} : k \in Kinds}
LineSet == UNION {[1..n -> TokSet] : n \in (IF AllowBlank THEN 0 ELSE 1)..MaxTok}
SpSet   == [nored : NoRedSet, noobf : NoObfSets, width : WidthSet, allow : AllowSet]
(* nofqdn / dname do not occur in any operator below: the system's own name *)
(* is the name the system declares, however the cleaner gets to know it and *)
(* whatever label the inventory shows.  MustHide (C08) of the kinds short / *)
(* fqdn / dom is the same function of obf / host / sysdom for every value   *)
(* of nofqdn / dname (config own1).                                         *)
Cfgs    == {c \in [obf : ObfSet, host : HostSet, mac : MacSet, v6 : V6Set, kws : KwSets, pats : PatSets,
                   regex : RegexSet, sysdom : SysDomSet, fam : FamSet, nofqdn : NoFqdnSet, dname : DnameSet] :
                /\ (c.pats = {} => ~c.regex \/ RegexSet = {TRUE})
                /\ (c.host => c.obf)}      \* client/config.py: obfuscate_hostname requires obfuscate
(* ChooseOrder: ANY fixed order in which a configured keyword cannot pre-empt *)
(* a mapped original (a keyword inside a host name / address): otherwise the *)
(* same host passing through a spec that exempts keywords and through one   *)
(* that does not gets two substitutes - TLC finds that history (Rewritten,  *)
(* Consistent) as soon as the side condition is dropped.                    *)
OrderOK(s) == \A i, j \in DOMAIN s : (s[i] = "keyword" /\ s[j] \in {"hostname", "ip", "mac"}) => j < i
WithV6(s) == LET k == CHOOSE i \in DOMAIN s : s[i] = "ip" IN
             [i \in 1..(Len(s) + 1) |-> IF i <= k THEN s[i] ELSE IF i = k + 1 THEN "ipv6" ELSE s[i - 1]]
Orders  == IF AllOrders
             THEN {WithV6(s) : s \in {s \in [1..Cardinality(Obfs) -> Obfs] :
                                          (\A i, j \in DOMAIN s : s[i] = s[j] => i = j) /\ OrderOK(s)}}
             ELSE {<<"hostname", "ip", "ipv6", "keyword", "mac", "password">>}

-----------------------------------------------------------------------------
(* The statement of C08, token by token.                                    *)
Delimited(t) == t.l \in {"edge", "space", "punct"} /\ t.r \in {"edge", "space", "punct"}
(* IPv4 (reading revised): the statement has no delimiter condition for     *)
(* addresses.  A canonical dotted quad must be hidden whenever it is        *)
(* maximal: not preceded by a digit or a dot (nor glued to an identifier),  *)
(* not continued by a digit - in particular in address.port, address:port,  *)
(* address/prefix, (address), address, notation.                            *)
IpMaximal(t) == /\ t.l \in {"edge", "space", "punct", "colon", "dash"}
                /\ t.r \in {"edge", "space", "punct", "colon", "dash", "dotnum", "alpha"}
(* MAC: "delimited by non-word characters"; ':' and '-' continue the MAC    *)
(* syntax (DESIGN reading iii), a dot does not.                             *)
MacDelimited(t) == t.l \in {"edge", "space", "punct", "dotnum"} /\ t.r \in {"edge", "space", "punct", "dotnum"}
DelimK(t) == CASE t.k = "ip" -> IpMaximal(t) [] t.k = "mac" -> MacDelimited(t) [] OTHER -> Delimited(t)

Exempt(o, sp) == o \in sp.noobf
MustHide(t, c, sp) ==
    CASE t.k = "kw"  -> t.id \in c.kws /\ ~Exempt("keyword", sp)
      [] t.k = "pw"  -> ~Exempt("password", sp)
      [] t.k = "ip"  -> c.obf /\ ~Exempt("ip", sp) /\ IpMaximal(t)
      [] t.k \in {"short", "fqdn"} -> c.obf /\ c.host /\ ~Exempt("hostname", sp)
      [] t.k = "dom" -> c.obf /\ c.host /\ c.sysdom /\ ~Exempt("hostname", sp)
      [] t.k = "mac" -> c.obf /\ c.mac /\ ~Exempt("mac", sp) /\ MacDelimited(t)
      [] OTHER       -> FALSE        \* text, loopback, all-zero / broadcast MAC, pattern text, allow-list key
MustDrop(line, c, sp) ==
    ~sp.nored /\ \E i \in DOMAIN line : line[i].k = "pat" /\ line[i].id \in c.pats
(* allow-list filtering (cleaner/filters.py): a non-blank line passes only  *)
(* while it contains a key whose max_match budget is not used up            *)
(* (allow = n: the list {key 1 : n, ..., key NAk : n}; a line that contains  *)
(* several open keys is charged to the first of them in the list's order)   *)
HasKey(line) == \E i \in DOMAIN line : line[i].k = "akey"
OpenKeys(line, bud) == {line[i].id : i \in {j \in DOMAIN line : line[j].k = "akey" /\ bud[line[j].id] > 0}}
FilterDrops(line, sp, bud) == sp.allow > 0 /\ line # <<>> /\ OpenKeys(line, bud) = {}
Charge(line, bud) == LET k == CHOOSE k \in OpenKeys(line, bud) : \A x \in OpenKeys(line, bud) : k <= x
                     IN [bud EXCEPT ![k] = @ - 1]
NoBud == [k \in 1..NAk |-> 0]

(* Originals the mapping of C09 talks about.  The system's short and fully  *)
(* qualified name are one original (id 0 of group "host").                  *)
Group(k) == CASE k = "ip" -> "ip" [] k \in {"short", "fqdn", "dom"} -> "host"
              [] k = "mac" -> "mac" [] k = "kw" -> "kw" [] k = "ip6" -> "ip6" [] OTHER -> "none"
OrigOf(t) == <<Group(t.k), IF t.k \in {"short", "fqdn"} THEN 0 ELSE t.id>>
Sys       == <<"host", 0>>
Competing(c) == c.fam = "pwip"
(* C09 speaks of "IP address" in general, C08 of IPv4 only: an IPv6 address *)
(* (full eight-group notation, delimited) is mapped when the IPv6           *)
(* obfuscator is on, without being part of MustHide.                        *)
Hidden(t, c, sp) == IF t.k = "ip6" THEN c.obf /\ c.v6 /\ ~Exempt("ipv6", sp) ELSE MustHide(t, c, sp)
(* an occurrence the mapping must account for: a delimited occurrence that  *)
(* has to be hidden, of a kind that is mapped                               *)
MustMap(t, c, sp) == Group(t.k) \in {"ip", "ip6", "host", "mac"} /\ DelimK(t) /\ Hidden(t, c, sp)

-----------------------------------------------------------------------------
(* The pipeline (cleaner/__init__.py:125-146): the enabled obfuscators are  *)
(* applied in the order ord; the first one that recognises a token rewrites *)
(* it, a substitute is not rewritten again.                                 *)
Enabled(o, c, sp) ==
    /\ ~Exempt(o, sp)
    /\ CASE o = "ip" -> c.obf [] o = "hostname" -> c.obf /\ c.host [] o = "mac" -> c.obf /\ c.mac
         [] o = "ipv6" -> c.obf /\ c.v6
         [] o = "keyword" -> c.kws # {} [] OTHER -> TRUE
Rec(o, t, c) ==
    CASE o = "keyword"  -> \/ t.k = "kw" /\ t.id \in c.kws
                           \/ c.fam = "kwdom" /\ t.k \in {"fqdn", "dom"} /\ c.sysdom /\ 1 \in c.kws
                           \/ c.fam = "kwhost" /\ t.k = "dom" /\ t.id = 1 /\ 1 \in c.kws
      [] o = "hostname" -> t.k \in {"short", "fqdn"} \/ (t.k = "dom" /\ c.sysdom)
      [] o = "ip"       -> (t.k = "ip" /\ IpMaximal(t)) \/ (c.fam = "pwip" /\ t.k = "pw")
      [] o = "mac"      -> t.k = "mac" /\ MacDelimited(t)
      [] o = "ipv6"     -> t.k = "ip6" /\ Delimited(t)
      [] OTHER          -> t.k = "pw"
RECURSIVE First(_, _, _, _, _)
First(t, c, sp, od, j) ==
    IF j > Len(od) THEN "none"
    ELSE IF Enabled(od[j], c, sp) /\ Rec(od[j], t, c) THEN od[j] ELSE First(t, c, sp, od, j + 1)
OwnObf(k) == CASE k = "ip" -> "ip" [] k \in {"short", "fqdn", "dom"} -> "hostname" [] k = "mac" -> "mac"
               [] k = "ip6" -> "ipv6"
               [] k = "kw" -> "keyword" [] k = "pw" -> "password" [] OTHER -> "none"

NewOrigs(line, c, sp) == {OrigOf(line[i]) : i \in {j \in DOMAIN line : MustMap(line[j], c, sp)}} \ DOMAIN db
Inj(f) == \A a, b \in DOMAIN f : f[a] = f[b] => a = b
Extend(line, c, sp) ==
    LET new == NewOrigs(line, c, sp)
        f   == CHOOSE g \in [new -> (cnt + 1)..(cnt + Cardinality(new))] : Inj(g)
    IN [p \in DOMAIN db \cup new |-> IF p \in DOMAIN db THEN db[p] ELSE f[p]]
Status(t, c, sp, od, ndb) ==
    LET w == First(t, c, sp, od, 1) IN
    IF w = "none" THEN [st |-> "kept", by |-> "none", v |-> 0]
    ELSE [st |-> "sub", by |-> w, v |-> IF MustMap(t, c, sp) /\ w = OwnObf(t.k) THEN ndb[OrigOf(t)] ELSE 0]
OccIn(line) == {OrigOf(line[i]) : i \in {j \in DOMAIN line : Group(line[j].k) # "none"}}

-----------------------------------------------------------------------------
Init ==
    /\ phase = "new" /\ cf = [obf |-> FALSE] /\ ord = <<>> /\ run = 1 /\ content = <<>> /\ si = 0
    /\ cur = [i |-> 0, acc |-> <<>>, bud |-> NoBud] /\ db = <<>> /\ seen = {} /\ cnt = 0 /\ outs = <<>>
    /\ report = {} /\ runs = <<>>

FreshDb(c) == IF c.obf /\ c.host THEN (Sys :> 1) ELSE <<>>       \* hostname.py:28-48
FreshCnt(c) == IF c.obf /\ c.host THEN 1 ELSE 0

NewCleaner ==                                   \* Cleaner.__init__ + ChooseOrder
    /\ phase = "new"
    /\ \E c \in Cfgs, o \in Orders :
         /\ cf' = c /\ ord' = o
         /\ db' = FreshDb(c) /\ cnt' = FreshCnt(c)
    /\ phase' = "idle"
    /\ UNCHANGED <<run, content, si, cur, seen, outs, report, runs>>

LinesFed == LET RECURSIVE Sum(_) Sum(j) == IF j = 0 THEN 0 ELSE Len(content[j].lines) + Sum(j - 1)
            IN Sum(Len(content))

BeginSpec ==
    /\ phase = "idle" /\ report = {}
    /\ IF run = 1
         THEN /\ si < MaxSpecs /\ LinesFed < TotLines
              /\ \E sp \in SpSet :
                 \E n \in 1..(IF MaxLines < TotLines - LinesFed THEN MaxLines ELSE TotLines - LinesFed) :
                 \E ls \in [1..n -> LineSet] :
                    content' = Append(content, [sp |-> sp, lines |-> ls])
         ELSE si < Len(content) /\ content' = content
    /\ si' = si + 1
    /\ cur' = [i |-> Len(content'[si + 1].lines), acc |-> <<>>, bud |-> [k \in 1..NAk |-> content'[si + 1].sp.allow]]
    /\ phase' = "spec"
    /\ UNCHANGED <<cf, ord, run, db, seen, cnt, outs, report, runs>>

CleanLine ==                                    \* one iteration of the loop at cleaner/__init__.py:153-155
    /\ phase = "spec" /\ cur.i > 0
    /\ LET sp   == content[si].sp
           line == content[si].lines[cur.i]
           by   == IF MustDrop(line, cf, sp) THEN "pattern"
                   ELSE IF FilterDrops(line, sp, cur.bud) THEN "filter" ELSE "none"
       IN IF by # "none"
            THEN /\ cur' = [i |-> cur.i - 1, bud |-> cur.bud,
                            acc |-> Append(cur.acc, [src |-> cur.i, toks |-> line, dropped |-> TRUE,
                                                     sts |-> [j \in DOMAIN line |-> [st |-> "dropped", by |-> by, v |-> 0]]])]
                 /\ UNCHANGED <<db, cnt>>
            ELSE LET ndb == Extend(line, cf, sp) IN
                 /\ db' = ndb
                 /\ cnt' = cnt + Cardinality(DOMAIN ndb \ DOMAIN db)
                 /\ cur' = [i |-> cur.i - 1,
                            bud |-> IF sp.allow > 0 /\ line # <<>> THEN Charge(line, cur.bud) ELSE cur.bud,
                            acc |-> Append(cur.acc, [src |-> cur.i, toks |-> line, dropped |-> FALSE,
                                                     sts |-> [j \in DOMAIN line |-> Status(line[j], cf, sp, ord, ndb)]])]
    /\ seen' = seen \cup OccIn(content[si].lines[cur.i])          \* "occurred in the content", kept or not
    /\ UNCHANGED <<phase, cf, ord, run, content, si, outs, report, runs>>

RECURSIVE Rev(_)
Rev(s) == IF s = <<>> THEN <<>> ELSE Append(Rev(Tail(s)), Head(s))
Blank(e) == e.toks = <<>>
Collapse(acc) ==                                \* cleaner/__init__.py:156-161
    LET kept == SelectSeq(acc, LAMBDA e : ~e.dropped) IN
    IF \A j \in DOMAIN kept : Blank(kept[j]) THEN <<>> ELSE Rev(kept)
(* A spec whose DECLARATION exempts it from every step (no_redact, exempt    *)
(* from all six obfuscators, not filterable) is not cleaned: it is stored as *)
(* it was collected (spec_factory.py:88-116, "Skipping cleaning").  What is  *)
(* CONFIGURED (patterns, keywords, switches) plays no part in this: a spec   *)
(* that is subject to a step for which nothing is configured is still a     *)
(* cleaned spec, and the blank collapse applies to it (C10).                *)
AllObf == Obfs \cup {"ipv6"}
Untouched(sp) == sp.nored /\ AllObf \subseteq sp.noobf /\ sp.allow = 0

EndSpec ==
    /\ phase = "spec" /\ cur.i = 0
    /\ LET o == IF Untouched(content[si].sp) THEN Rev(cur.acc) ELSE Collapse(cur.acc) IN
       outs' = Append(outs, [out |-> o, stored |-> o # <<>>, n |-> Len(content[si].lines)])   \* spec_factory.py:104-116
    /\ phase' = "idle"
    /\ UNCHANGED <<cf, ord, run, content, si, cur, db, seen, cnt, report, runs>>

Report ==                                       \* mapping() of every obfuscator, facts file
    /\ phase = "idle" /\ si >= 1 /\ (run > 1 => si = Len(content))
    /\ report' = {<<p[1], p[2], db[p]>> : p \in DOMAIN db}
    /\ runs' = Append(runs, [ord |-> ord, outs |-> outs])
    /\ phase' = "done"
    /\ UNCHANGED <<cf, ord, run, content, si, cur, db, seen, cnt, outs>>

Rerun ==                                        \* a fresh cleaner, same configuration, same content
    /\ phase = "done" /\ run < Runs
    /\ run' = run + 1
    /\ IF FreeOrder THEN ord' \in Orders ELSE ord' = ord
    /\ db' = FreshDb(cf) /\ cnt' = FreshCnt(cf) /\ seen' = {} /\ outs' = <<>> /\ report' = {}
    /\ si' = 0 /\ cur' = [i |-> 0, acc |-> <<>>, bud |-> NoBud]
    /\ phase' = "idle"
    /\ UNCHANGED <<cf, content, runs>>

Next == NewCleaner \/ BeginSpec \/ CleanLine \/ EndSpec \/ Report \/ Rerun
Spec == Init /\ [][Next]_vars
Terminal == phase = "done" /\ run = Runs

-----------------------------------------------------------------------------
Live == phase # "new"
Entries == (IF phase = "spec" THEN {<<si, cur.acc[j]>> : j \in DOMAIN cur.acc} ELSE {})
           \cup UNION {{<<s, outs[s].out[j]>> : j \in DOMAIN outs[s].out} : s \in DOMAIN outs}

(* C08 *)
NoLeak ==
    Live => \A e \in Entries : \A j \in DOMAIN e[2].toks :
                MustHide(e[2].toks[j], cf, content[e[1]].sp) => e[2].sts[j].st # "kept"
PatternDrops ==
    Live => \A s \in DOMAIN outs : \A j \in DOMAIN outs[s].out :
                ~MustDrop(outs[s].out[j].toks, cf, content[s].sp)

(* C09 *)
Consistent == [][(run' = run /\ phase # "new") => \A p \in DOMAIN db : p \in DOMAIN db' /\ db'[p] = db[p]]_vars
Rewritten ==    \* every mapped occurrence on every line is rewritten by db
    Live => \A e \in Entries : \A j \in DOMAIN e[2].toks :
                LET t == e[2].toks[j] IN
                (~e[2].dropped /\ MustMap(t, cf, content[e[1]].sp) /\ ~Competing(cf))
                    => OrigOf(t) \in DOMAIN db /\ e[2].sts[j].v = db[OrigOf(t)]
Injective ==
    Live => \A p, q \in DOMAIN db : (p[1] = q[1] /\ p[1] \in {"ip", "host"} /\ db[p] = db[q]) => p = q
ReportExact ==
    phase = "done" => report = {<<p[1], p[2], db[p]>> : p \in DOMAIN db}
NoPhantom ==
    phase = "done" => \A r \in report : <<r[1], r[2]>> \in seen \cup {Sys}

(* C10 *)
RECURSIVE IsSubSeq(_, _)
IsSubSeq(a, b) == IF a = <<>> THEN TRUE ELSE IF b = <<>> THEN FALSE
                  ELSE IF Head(a) = Head(b) THEN IsSubSeq(Tail(a), Tail(b)) ELSE IsSubSeq(a, Tail(b))
Prov(out) == [j \in DOMAIN out |-> IF Blank(out[j]) THEN 0 ELSE out[j].src]
InProv(lines) == [j \in DOMAIN lines |-> IF lines[j] = <<>> THEN 0 ELSE j]
ProvenanceMonotone ==
    Live => \A s \in DOMAIN outs : IsSubSeq(Prov(outs[s].out), InProv(content[s].lines))
AllBlankAfter(lines, c, sp) == \A j \in DOMAIN lines : \/ lines[j] = <<>> \/ MustDrop(lines[j], c, sp)
                                                       \/ (sp.allow > 0 /\ ~HasKey(lines[j]))
BlankCollapses ==
    Live => \A s \in DOMAIN outs :
                (AllBlankAfter(content[s].lines, cf, content[s].sp) /\ ~Untouched(content[s].sp))
                    => (outs[s].out = <<>> /\ ~outs[s].stored)
OneOrder      == \A i, j \in DOMAIN runs : runs[i].ord = runs[j].ord
Deterministic == \A i, j \in DOMAIN runs : runs[i].outs = runs[j].outs

=============================================================================
