----------------------------- MODULE BaseParsers -----------------------------
(***************************************************************************)
(* The documented contract of the base parsers of insights-core            *)
(* (insights/core/__init__.py): CommandParser bad-line validation,          *)
(* JSONParser / YAMLParser document handling, TextFileOutput.get and the    *)
(* scanners built on it, LogFileOutput.get_after.                           *)
(*                                                                         *)
(* Inputs are ABSTRACT: a command output is a sequence of line classes, a   *)
(* document is a tagged tree, a log is a sequence of (time stamp | none)    *)
(* lines.  The module gives, per family,                                    *)
(*   - the denotational reference (what the property statement says), and   *)
(*   - for the two searches the step-wise algorithm the documentation       *)
(*     describes (scan with a budget; the `including' state machine),       *)
(* and TLC checks on every input of the bound that they agree (SearchExact, *)
(* AfterExact) and that the outcome tables are total (Totality).            *)
(* One behaviour = one input chosen in Init, then the steps of its family.  *)
(* Property C14 of /verif/properties.jsonl.                                 *)
(***************************************************************************)
EXTENDS Integers, Sequences, FiniteSets, TLC

CONSTANTS
    Fam,        \* "cmd" | "doc" | "search" | "after" | "year" | "mixed"
    N,          \* bound on the number of lines / width of documents
    Deep        \* BOOLEAN: larger document / day sets (thorough tier)

VARIABLES
    inp,        \* the abstract input (a record; shape depends on Fam)
    k,          \* cursor of the step-wise algorithms (lines consumed)
    acc,        \* accumulated result (sequence of line indices) / outcome record
    inc,        \* LogFileOutput.get_after: the `including_lines' flag
    done

vars == <<inp, k, acc, inc, done>>

Rng(s)         == {s[i] : i \in DOMAIN s}
SeqsUpTo(S, n) == UNION {[1..m -> S] : m \in 0..n}
Idx(s)         == [i \in 1..Len(s) |-> i]
Rev(s)         == [i \in 1..Len(s) |-> s[Len(s) + 1 - i]]

-----------------------------------------------------------------------------
(* (1) CommandParser.  A line is classified by what it CONTAINS (in any     *)
(* letter case, at any position): a phrase of the single-line table, a      *)
(* phrase of the multi-line table, a phrase of extra_bad_lines.             *)
LineClass == [sg : BOOLEAN, ml : BOOLEAN, ex : BOOLEAN]

CmdBadLine(in, i) ==
    LET c == in.lines[i] IN
    \/ Len(in.lines) = 1 /\ c.sg                 \* single line, single-line phrase
    \/ Len(in.lines) > 1 /\ c.ml                 \* several lines, multi-line phrase
    \/ in.extra /\ c.ex                          \* extra_bad_lines: every line, both situations
CmdBad(in) == \E i \in DOMAIN in.lines : CmdBadLine(in, i)

(* content error and no object, or the parser sees the lines unchanged      *)
CmdRef(in) == IF CmdBad(in) THEN [outcome |-> "content", seen |-> <<>>]
                            ELSE [outcome |-> "ok", seen |-> Idx(in.lines)]

CmdInputs == [lines : SeqsUpTo(LineClass, N), extra : BOOLEAN]

-----------------------------------------------------------------------------
(* (2) JSON / YAML documents.  One record shape for every node so that TLC  *)
(* never compares values of different types.                                *)
Node(t, s, n, xs) == [t |-> t, s |-> s, n |-> n, xs |-> xs]
StrN(x)   == Node("str", x, 0, <<>>)
IntN(i)   == Node("int", "", i, <<>>)
BoolN(b)  == Node("bool", "", IF b THEN 1 ELSE 0, <<>>)
Null     == Node("null", "", 0, <<>>)
SeqN(xs) == Node("seq", "", 0, xs)
Ent(key, v) == Node("ent", key, 0, <<v>>)
MapN(es) == Node("map", "", 0, es)
EmptyDoc == Node("empty", "", 0, <<>>)        \* no content at all
BadDoc(i) == Node("bad", "", i, <<>>)         \* i-th kind of non-document (driver's catalogue): 1..6 text that is
                                              \* not well-formed; 7..12 well-formed text that the loader cannot turn
                                              \* into a value (invalid date, tagged non-number, ... ; JSON: nesting
                                              \* beyond what the loader can build)

DocClass(d) ==
    CASE d.t = "map" -> "mapping"
      [] d.t = "seq" -> "sequence"
      [] d.t \in {"str", "int", "bool"} -> "scalar"
      [] d.t = "null" -> "null"
      [] d.t = "empty" -> "empty"
      [] d.t = "bad" /\ d.n > 6 -> "constructor-fails"
      [] OTHER -> "malformed"

Outcomes == {"value", "skip", "parse"}

(* The outcome table.  noise = number of noise lines: for JSON, lines before *)
(* the document that do not start with { or [; for YAML, lines starting with *)
(* a keyword of ignore_lines (they are not part of the document).            *)
(* The statement is silent on `noise + null' for JSON: either signal is      *)
(* accepted (R1).  JSON noise and nothing else is a non-document.            *)
Allowed(fmt, cls, noise) ==
    CASE cls \in {"mapping", "sequence"} -> {"value"}
      [] cls = "null"  -> IF fmt = "json" /\ noise > 0 THEN {"skip", "parse"} ELSE {"skip"}
      [] cls = "empty" -> IF fmt = "json" /\ noise > 0 THEN {"parse"} ELSE {"skip"}
      [] OTHER -> {"parse"}                      \* scalar, malformed, constructor-fails: "anything else"

RECURSIVE SameVal(_, _)
SameVal(a, b) ==
    /\ a.t = b.t /\ a.s = b.s /\ a.n = b.n /\ Len(a.xs) = Len(b.xs)
    /\ IF a.t = "map"
         THEN /\ \A i \in DOMAIN a.xs : \E j \in DOMAIN b.xs : SameVal(a.xs[i], b.xs[j])
              /\ \A j \in DOMAIN b.xs : \E i \in DOMAIN a.xs : SameVal(a.xs[i], b.xs[j])
         ELSE \A i \in DOMAIN a.xs : SameVal(a.xs[i], b.xs[i])

DocRef(in) == [allowed |-> Allowed(in.fmt, DocClass(in.doc), in.noise), value |-> in.doc]

Keys   == {"k1", "k2"}
Leaves == {StrN("a"), StrN("b"), IntN(0), IntN(7), BoolN(TRUE), BoolN(FALSE), Null}
InjKeys(m) == {ks \in [1..m -> Keys] : \A i, j \in 1..m : ks[i] = ks[j] => i = j}
Conts(Ch, w) ==
    {SeqN(xs) : xs \in SeqsUpTo(Ch, w)} \cup
    UNION {{MapN([i \in 1..m |-> Ent(ks[i], vs[i])]) : ks \in InjKeys(m), vs \in [1..m -> Ch]} : m \in 0..w}
SmallCh == {StrN("a"), Null} \cup Conts({IntN(0)}, 1)
BigCh   == {StrN("a"), Null, IntN(7), BoolN(FALSE)} \cup Conts({IntN(0), StrN("b")}, 1)
Docs == Leaves \cup Conts(Leaves, 2) \cup Conts(IF Deep THEN BigCh ELSE SmallCh, 2)
        \cup {EmptyDoc} \cup {BadDoc(i) : i \in 1..12}
DocInputs == [doc : Docs, fmt : {"json", "yaml"}, noise : 0..2]

-----------------------------------------------------------------------------
(* (3) TextFileOutput.get / keep_scan / last_scan / token_scan / `in'.      *)
(* A line is the tuple of flags "contains term t"; a query is a list of     *)
(* terms (or one bare string), all|any, a limit (-1 = None), a direction.   *)
NT == 2
LineT == [1..NT -> BOOLEAN]

LineMatches(L, q) ==
    IF q.any THEN \E i \in DOMAIN q.terms : L[q.terms[i]]
             ELSE \A i \in DOMAIN q.terms : L[q.terms[i]]
MatchIdx(in) == SelectSeq(Idx(in.lines), LAMBDA i : LineMatches(in.lines[i], in.q))
Limit(sq, num, rev) ==
    IF num < 0 \/ num >= Len(sq) THEN sq
    ELSE IF rev THEN SubSeq(sq, Len(sq) - num + 1, Len(sq)) ELSE SubSeq(sq, 1, num)
(* precisely the lines containing the requested strings, in original order; *)
(* the first / last `num' of them                                           *)
SearchRef(in) == Limit(MatchIdx(in), in.q.num, in.q.rev)

(* what the scanners and `in' are documented to return, in terms of get     *)
ViaRef(via, in) ==
    CASE via \in {"get", "keep_scan"} -> SearchRef(in)
      [] via = "last_scan" -> Limit(MatchIdx(in), 1, TRUE)           \* the last matching line, or nothing
      [] OTHER -> IF MatchIdx(in) = <<>> THEN <<>> ELSE <<0>>        \* token_scan, contains: a flag

Queries == [terms : {<<1>>, <<2>>, <<1, 2>>}, single : {FALSE}, any : BOOLEAN, num : (0 - 1)..N, rev : BOOLEAN]
           \cup [terms : {<<1>>}, single : {TRUE}, any : {FALSE}, num : {0 - 1, 1}, rev : BOOLEAN]
SearchInputs == [lines : SeqsUpTo(LineT, N), q : Queries]

-----------------------------------------------------------------------------
(* (4) LogFileOutput.get_after.  Time = calendar date (year, month, day,     *)
(* real month lengths, Gregorian leap rule) and a slot within the day       *)
(* (0..K-1, rendered order-preservingly).  A line of a year-less format     *)
(* carries month, day and slot only (y = 0).                                *)
K == 3
Leap(y) == y % 4 = 0 /\ (y % 100 # 0 \/ y % 400 = 0)
MonthLen(mo, y) == IF mo = 2 THEN (IF Leap(y) THEN 29 ELSE 28) ELSE IF mo \in {4, 6, 9, 11} THEN 30 ELSE 31
RECURSIVE DaysBefore(_, _)
DaysBefore(mo, y) == IF mo = 1 THEN 0 ELSE DaysBefore(mo - 1, y) + MonthLen(mo - 1, y)
LeapsBefore(y) == ((y - 1) \div 4) - ((y - 1) \div 100) + ((y - 1) \div 400)
(* day number of a date = proleptic Gregorian ordinal (1 January of year 1 = 1) *)
AbsDay(t) == 365 * (t.y - 1) + LeapsBefore(t.y) + DaysBefore(t.mo, t.y) + t.d
ValidDate(t) == t.mo \in 1..12 /\ t.d \in 1..MonthLen(t.mo, t.y)
Key(t) == AbsDay(t) * K + t.s
At(y, ln) == [y |-> y, mo |-> ln.mo, d |-> ln.d, s |-> ln.s]

(* the year inference for a year-less stamp: the stamp denotes its month /   *)
(* day / time in a CALENDAR year - the sought year, unless that moment is    *)
(* more than 330 days ahead of the sought time (then the previous year:      *)
(* "timestamp in January and log in December, move log to previous year")    *)
(* or more than 330 days behind it (then the next year)                      *)
InferYear(ln, T) ==
    LET delta == (AbsDay(At(T.y, ln)) - AbsDay(T)) * K + (ln.s - T.s) IN
    IF delta > 330 * K THEN T.y - 1 ELSE IF (0 - delta) > 330 * K THEN T.y + 1 ELSE T.y
(* the moment a stamp denotes: its own year when it carries one (y # 0), the *)
(* inferred calendar year otherwise - also when the parser's time_format is  *)
(* a list / dict that mixes formats with and without a year (mx)             *)
Eff(ln, T) == At(IF ln.y # 0 THEN ln.y ELSE InferYear(ln, T), ln)
AtOrAfter(ln, T) == Key(Eff(ln, T)) >= Key(T)

(* the logs the property quantifies over: valid dates of the format; a       *)
(* year-less stamp is never 29 February; hy = the format(s) have a year,     *)
(* unless mixed                                                              *)
AdmitsLog(in) ==
    /\ ValidDate(in.T)
    /\ \A i \in DOMAIN in.lines : in.lines[i].has =>
         /\ IF in.lines[i].y # 0 THEN ValidDate(in.lines[i])
            ELSE ~(in.lines[i].mo = 2 /\ in.lines[i].d = 29) /\ ValidDate(At(in.T.y, in.lines[i]))
         /\ ~in.mx => (in.hy <=> in.lines[i].y # 0)

Used(in, i) == in.filt => in.lines[i].m          \* with a search string only matching lines are used
PrevStamp(in, i) ==                                \* closest used, time-stamped line before i (0 = none)
    LET c == {j \in 1..(i - 1) : Used(in, j) /\ in.lines[j].has} IN
    IF c = {} THEN 0 ELSE CHOOSE j \in c : \A x \in c : x <= j
InAfter(in, i) ==
    /\ Used(in, i)
    /\ IF in.lines[i].has THEN AtOrAfter(in.lines[i], in.T)
       ELSE LET p == PrevStamp(in, i) IN p > 0 /\ AtOrAfter(in.lines[p], in.T)
(* precisely the time-stamped lines at or after T plus their continuations  *)
AfterRef(in) == SelectSeq(Idx(in.lines), LAMBDA i : InAfter(in, i))

Ln(has, y, mo, d, s, m) == [has |-> has, y |-> y, mo |-> mo, d |-> d, s |-> s, m |-> m]
NoStamp(m) == Ln(FALSE, 0, 0, 0, 0, m)
T0 == [y |-> 2021, mo |-> 4, d |-> 10, s |-> 1]
AfterLines(ms) == {NoStamp(m) : m \in ms} \cup {Ln(TRUE, 2021, 4, 10, s, m) : s \in 0..2, m \in ms}
AfterInputs ==
    [lines : SeqsUpTo(AfterLines({TRUE}), N), T : {T0}, hy : {TRUE}, mx : {FALSE}, filt : {FALSE}]
    \cup [lines : SeqsUpTo(AfterLines(BOOLEAN), N - 1), T : {T0}, hy : {TRUE}, mx : {FALSE}, filt : {TRUE}]

(* year inference: one time-stamped line and its continuation, on a grid of *)
(* dates around both ends of the year and around the 330-day threshold      *)
(* (1 Jan + 330 d = 27 Nov, 26 Nov in a leap year; 31 Dec - 330 d = 4 Feb,  *)
(* 5 Feb in a leap year), for a sought year before, in and after a leap year *)
Days    == {<<1, 1>>, <<1, 2>>, <<1, 20>>, <<2, 3>>, <<2, 4>>, <<2, 5>>, <<2, 6>>, <<2, 28>>, <<3, 1>>, <<7, 19>>,
            <<11, 25>>, <<11, 26>>, <<11, 27>>, <<11, 28>>, <<11, 29>>, <<12, 11>>, <<12, 30>>, <<12, 31>>}
TDays   == IF Deep THEN Days
           ELSE {<<1, 1>>, <<1, 2>>, <<1, 20>>, <<2, 4>>, <<2, 5>>, <<7, 19>>, <<11, 27>>, <<12, 11>>, <<12, 30>>, <<12, 31>>}
TYears  == {2019, 2020, 2021}
DaysY   == {<<1, 1>>, <<2, 4>>, <<11, 27>>, <<12, 31>>}
YearInputs ==
    {[lines |-> <<Ln(TRUE, 0, dd[1], dd[2], s, TRUE), NoStamp(TRUE)>>, T |-> [y |-> ty, mo |-> td[1], d |-> td[2], s |-> ts],
      hy |-> FALSE, mx |-> FALSE, filt |-> FALSE] : dd \in Days, s \in 0..2, td \in TDays, ts \in 0..1, ty \in TYears}
    \cup
    {[lines |-> <<Ln(TRUE, y, dd[1], dd[2], s, TRUE), NoStamp(TRUE)>>, T |-> [y |-> 2020, mo |-> td[1], d |-> td[2], s |-> 1],
      hy |-> TRUE, mx |-> FALSE, filt |-> FALSE] : y \in 2019..2021, dd \in DaysY, s \in 0..2, td \in DaysY}

(* a time_format list / dict that mixes a format with a year and one without: *)
(* a year-less and a year-bearing stamped line (either order), each with a    *)
(* continuation line; the explicit year before / in / after the sought year   *)
MDays == {<<1, 1>>, <<6, 14>>, <<6, 15>>, <<6, 16>>, <<12, 31>>}
MixedInputs ==
    {[lines |-> IF first THEN <<Ln(TRUE, 0, a[1], a[2], sa, TRUE), NoStamp(TRUE), Ln(TRUE, y, b[1], b[2], sb, TRUE), NoStamp(TRUE)>>
                ELSE <<Ln(TRUE, y, b[1], b[2], sb, TRUE), NoStamp(TRUE), Ln(TRUE, 0, a[1], a[2], sa, TRUE), NoStamp(TRUE)>>,
      T |-> [y |-> 2020, mo |-> td[1], d |-> td[2], s |-> 1], hy |-> FALSE, mx |-> TRUE, filt |-> FALSE] :
        first \in BOOLEAN, a \in MDays, sa \in {0, 2}, y \in 2019..2021, b \in MDays, sb \in {0, 2},
        td \in {<<1, 1>>, <<6, 15>>, <<12, 31>>}}

-----------------------------------------------------------------------------
Inputs == CASE Fam = "cmd" -> CmdInputs
            [] Fam = "doc" -> DocInputs
            [] Fam = "search" -> SearchInputs
            [] Fam = "after" -> AfterInputs
            [] Fam = "year" -> YearInputs
            [] Fam = "mixed" -> MixedInputs

Init == inp \in Inputs /\ k = 0 /\ acc = <<>> /\ inc = FALSE /\ done = FALSE

(* CommandParser.__init__: validate, then hand the content to parse_content *)
ValidateCommandOutput ==
    /\ Fam = "cmd" /\ ~done
    /\ acc' = IF CmdBad(inp) THEN <<>> ELSE Idx(inp.lines)
    /\ inc' = CmdBad(inp)                         \* here: "the content error was raised"
    /\ done' = TRUE /\ UNCHANGED <<inp, k>>

ClassifyDoc ==
    /\ Fam = "doc" /\ ~done
    /\ done' = TRUE /\ UNCHANGED <<inp, k, acc, inc>>

(* TextFileOutput.get: scan from the head (or the tail), keep a line while  *)
(* the budget lasts; finally restore the original order                     *)
ScanOrder == IF inp.q.rev THEN Rev(Idx(inp.lines)) ELSE Idx(inp.lines)
SearchStep ==
    /\ Fam = "search" /\ ~done /\ k < Len(inp.lines)
    /\ LET i == ScanOrder[k + 1] IN
       acc' = IF (inp.q.num < 0 \/ Len(acc) < inp.q.num) /\ LineMatches(inp.lines[i], inp.q)
                THEN Append(acc, i) ELSE acc
    /\ k' = k + 1 /\ UNCHANGED <<inp, inc, done>>
SearchEnd ==
    /\ Fam = "search" /\ ~done /\ k = Len(inp.lines)
    /\ acc' = IF inp.q.rev THEN Rev(acc) ELSE acc
    /\ done' = TRUE /\ UNCHANGED <<inp, k, inc>>

(* LogFileOutput.get_after: one line per step                               *)
GetAfterStep ==
    /\ Fam \in {"after", "year", "mixed"} /\ ~done /\ k < Len(inp.lines)
    /\ LET i == k + 1  ln == inp.lines[i] IN
       IF ~Used(inp, i) THEN UNCHANGED <<acc, inc>>
       ELSE IF ln.has
         THEN IF AtOrAfter(ln, inp.T) THEN inc' = TRUE /\ acc' = Append(acc, i)
                                              ELSE inc' = FALSE /\ acc' = acc
         ELSE inc' = inc /\ acc' = IF inc THEN Append(acc, i) ELSE acc
    /\ k' = k + 1 /\ UNCHANGED <<inp, done>>
GetAfterEnd ==
    /\ Fam \in {"after", "year", "mixed"} /\ ~done /\ k = Len(inp.lines)
    /\ done' = TRUE /\ UNCHANGED <<inp, k, acc, inc>>

Next == ValidateCommandOutput \/ ClassifyDoc \/ SearchStep \/ SearchEnd \/ GetAfterStep \/ GetAfterEnd
Spec == Init /\ [][Next]_vars

-----------------------------------------------------------------------------
(* Properties *)
Totality ==
    /\ Fam = "doc" => /\ DocRef(inp).allowed # {} /\ DocRef(inp).allowed \subseteq Outcomes
                      /\ ("value" \in DocRef(inp).allowed => DocClass(inp.doc) \in {"mapping", "sequence"})
                      /\ SameVal(inp.doc, inp.doc)
    /\ (Fam = "cmd" /\ done) => /\ CmdRef(inp).outcome = (IF inc THEN "content" ELSE "ok")
                                /\ CmdRef(inp).seen = acc
                                /\ (inp.lines = <<>> => ~inc)
SearchExact == (Fam = "search" /\ done) => acc = SearchRef(inp)
(* a budget only ever shortens the result, and never re-orders it           *)
SearchMonotone ==
    (Fam = "search" /\ done) =>
        /\ Rng(acc) \subseteq Rng(MatchIdx(inp))
        /\ \A i, j \in DOMAIN acc : i < j => acc[i] < acc[j]
        /\ Len(acc) = (IF inp.q.num < 0 \/ inp.q.num > Len(MatchIdx(inp)) THEN Len(MatchIdx(inp)) ELSE inp.q.num)
AfterExact == (Fam \in {"after", "year", "mixed"} /\ done) => acc = AfterRef(inp)
(* a year-less stamp is never placed further than 330 days (+ a day) away,  *)
(* and a stamp moved to the previous (next) calendar year lies before       *)
(* (after) the sought time - 31 December really is before 1 January 00:30   *)
YearNear ==
    (Fam = "year" /\ ~inp.hy) =>
        LET e == Eff(inp.lines[1], inp.T)
            dist == AbsDay(e) - AbsDay(inp.T) IN
        /\ AdmitsLog(inp)
        /\ dist <= 331 /\ (0 - dist) <= 331
        /\ e.y < inp.T.y => Key(e) < Key(inp.T)
        /\ e.y > inp.T.y => Key(e) > Key(inp.T)
(* the calendar of the model: month lengths add up, the day numbering is continuous *)
CalendarOK ==
    \A y \in 2019..2021 :
        /\ DaysBefore(12, y) + 31 = (IF Leap(y) THEN 366 ELSE 365)
        /\ AbsDay([y |-> y + 1, mo |-> 1, d |-> 1]) = AbsDay([y |-> y, mo |-> 12, d |-> 31]) + 1
        /\ AbsDay([y |-> 2020, mo |-> 3, d |-> 1]) = AbsDay([y |-> 2020, mo |-> 2, d |-> 29]) + 1

=============================================================================
