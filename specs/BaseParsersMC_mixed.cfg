SPECIFICATION Spec
CONSTANTS
  Fam = "mixed"
  N = 3
  Deep = FALSE
INVARIANT Totality
INVARIANT SearchExact
INVARIANT SearchMonotone
INVARIANT AfterExact
INVARIANT YearNear
INVARIANT CalendarOK
CONSTRAINT Emit
CHECK_DEADLOCK FALSE
