--------------------------- MODULE SpecRegistryMC ---------------------------
(* Model-checking wrapper: emits one CASE record per registration history   *)
(* (when its evaluation phase starts) for the replay driver, and a          *)
(* randomised Evaluate for -simulate.                                       *)
EXTENDS SpecRegistry, Json

Emit == phase = "eval" => PrintT(<<"CASE", ToJson([impls |-> impls, levels |-> levels])>>)

Pick(S) == {RandomElement(S)}

EvaluateSim ==
    /\ phase = "eval"
    /\ phase' = "done"
    /\ LET n == Len(impls) IN
       \E seedrun \in Pick(IF AllowSeed /\ levels = 0 THEN {FALSE, FALSE, TRUE} ELSE {FALSE}) :
       IF seedrun
           THEN \E S \in Pick(SUBSET (1..n) \ {{}}), oc \in Pick(SeedOuts(n)), arch \in Pick(BOOLEAN) :
                   ev' = EvalWith(0, oc, [i \in 1..n |-> "val"], S, arch)
           ELSE \E a \in Pick(Ctx), oc \in Pick([1..n -> Outs]), hoc \in Pick(HOuts(n)) :
                   ev' = EvalWith(a, oc, hoc, {}, FALSE)
    /\ UNCHANGED <<impls, handlers, ignore, levels, pointDeps>>

RegisterSim ==
    /\ Len(impls) < MaxImpl
    /\ \E d \in Pick(Decls(Len(impls))) : RegisterImpl(d)

StartSim == StartEval /\ (Len(impls) = MaxImpl \/ RandomElement(1..4) = 1)

NextSim == RegisterSim \/ StartSim \/ EvaluateSim
SpecSim == Init /\ [][NextSim]_vars
=============================================================================
