---------------------------- MODULE TextHelpersMC ----------------------------
(* Model-checking wrapper of TextHelpers: emits one CASE record per          *)
(* enumerated abstract document with its normal form, for the replay driver. *)
EXTENDS TextHelpers, Json

Feature == CASE Fam = "fixed" -> IF HeaderInsidePrev(inp) THEN "header-inside-previous" ELSE ""
             [] Fam = "ini" -> IF IndentedCommentAfterOption(inp) THEN "indented-comment-after-option" ELSE ""
             [] OTHER -> ""

Emit == done => PrintT(<<"CASE", ToJson([fam |-> Fam, inp |-> inp, exp |-> out, feature |-> Feature])>>)
=============================================================================
