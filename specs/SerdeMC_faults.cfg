SPECIFICATION Spec
CONSTANTS
  N = 2
  Kinds = {"text", "command"}
  Atoms = {"p"}
  MinLines = 1
  MaxLines = 1
  MaxElems = 0
  SaveAsSet = {"none"}
  Modes = {"deleted", "truncated", "nonjson", "unknown", "shape", "datagone", "unopenable"}
  MayFail = TRUE
  OutcomeSet = {"crash"}
  BackedSet = {FALSE}
  FilterSet = {FALSE}
  Budget = 2
  BudgetMode = "per-load"
  RecordMode = "component"
  PoolSet = {FALSE}
  AssembleMode = "index"
  LateSet = {FALSE}
  LookupMode = "live"
  MaxFaults = 2
INVARIANT RoundTrip
INVARIANT ErrorsPersisted
INVARIANT FaultIsolation
CONSTRAINT Emit
CHECK_DEADLOCK FALSE
