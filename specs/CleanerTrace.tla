----------------------------- MODULE CleanerTrace -----------------------------
(***************************************************************************)
(* Trace validation for Cleaner: every execution of the real                *)
(* insights.cleaner.Cleaner that harness/drive_cleaner.py recorded must be  *)
(* a behaviour the specification allows.                                    *)
(*                                                                         *)
(* mode "lines" (C08, C09): one trace = one Cleaner instance; events        *)
(*   spec, line* (bottom-up, as processed), endspec, ..., report.  The      *)
(*   \E newdb of Cleaner!CleanLine is bound by the observed per-token       *)
(*   rewriting: db is RECONSTRUCTED from the output and every clause is     *)
(*   evaluated on the reconstructed state after every line.                 *)
(* mode "runs" (C10): one trace = one cleaning case executed in child       *)
(*   interpreters under PYTHONHASHSEED = 0..K; one run event per seed.      *)
(*                                                                         *)
(* What is constrained is what the properties state (R1): a token that      *)
(* MustHide may not be kept (what it is replaced by is free); a mapped      *)
(* original has one rendering; renderings are opaque numbers.               *)
(***************************************************************************)
EXTENDS Cleaner, Json, IOUtils, TLCExt

Batch == JsonDeserialize(IOEnv.TRACE_FILE)

VARIABLES tid, l,
          selfs     \* originals whose first occurrence was LEFT AS IT IS because its text is an issued substitute
tvars == <<vars, tid, l, selfs>>

Rng(s) == {s[i] : i \in DOMAIN s}
T      == Batch[tid]
Ev     == T.events[l + 1]
More   == l < Len(T.events)

CfOf(t) == [obf |-> t.cf.obf, host |-> t.cf.host, mac |-> t.cf.mac, v6 |-> t.cf.v6, kws |-> Rng(t.cf.kws), pats |-> Rng(t.cf.pats),
            regex |-> t.cf.regex, sysdom |-> t.cf.sysdom, fam |-> t.cf.fam, nofqdn |-> t.cf.nofqdn, dname |-> t.cf.dname]
SpOf(s) == [nored |-> s.nored, noobf |-> Rng(s.noobf), width |-> s.width, allow |-> s.allow]     \* (s.nak: keys of the list, driver only)
ContentOf(t) == IF t.mode = "runs"
                  THEN [s \in DOMAIN t.content |-> [sp |-> SpOf(t.content[s].sp), lines |-> t.content[s].lines]]
                  ELSE <<>>

InitFrom(t) ==
    /\ phase = "idle" /\ cf = CfOf(t) /\ ord = <<>> /\ run = 1 /\ content = ContentOf(t) /\ si = 0
    /\ cur = [i |-> 0, acc |-> <<>>, bud |-> <<>>] /\ db = <<>> /\ seen = {} /\ cnt = 0 /\ outs = <<>>
    /\ report = {} /\ runs = <<>> /\ selfs = {}
NextFrom(t) ==
    /\ phase' = "idle" /\ cf' = CfOf(t) /\ ord' = <<>> /\ run' = 1 /\ content' = ContentOf(t) /\ si' = 0
    /\ cur' = [i |-> 0, acc |-> <<>>, bud |-> <<>>] /\ db' = <<>> /\ seen' = {} /\ cnt' = 0 /\ outs' = <<>>
    /\ report' = {} /\ runs' = <<>> /\ selfs' = {}

-----------------------------------------------------------------------------
(* ---- line: C08 on the observation, C09 on the reconstructed db ---- *)
CurSp == content[si].sp
(* occurrences the mapping talks about: maximal / delimited, must be hidden, *)
(* the line was not dropped.  obs[j].v is the interned rendering; for an    *)
(* occurrence left as it is ("kept", "self") it is the interned token text. *)
Occ(toks, obs) == {j \in DOMAIN toks : /\ Group(toks[j].k) # "none" /\ DelimK(toks[j])
                                       /\ Hidden(toks[j], cf, CurSp) /\ ~Competing(cf) /\ obs[j].st # "dropped"}
(* occurrences that bind db: rewritten, or left alone because the text is an *)
(* issued substitute (C08's exception clause).  A plain "kept" is NoLeak's.  *)
Bind(toks, obs) == {j \in Occ(toks, obs) : obs[j].st \in {"sub", "other", "self"}}
Strict(g) == g \in {"ip", "ip6", "host", "mac"}
FirstOf(toks, obs, p) == CHOOSE j \in Bind(toks, obs) : OrigOf(toks[j]) = p /\ \A i \in Bind(toks, obs) : OrigOf(toks[i]) = p => j <= i
NewDb(toks, obs) ==
    LET new == {OrigOf(toks[j]) : j \in Bind(toks, obs)} \ DOMAIN db
    IN [p \in DOMAIN db \cup new |-> IF p \in DOMAIN db THEN db[p] ELSE obs[FirstOf(toks, obs, p)].v]
(* (also a keyword whose occurrence is rewritten through ANOTHER, shorter keyword - topsecret -> topkeyword0 -: *)
(*  the pair that explains the output is the shorter keyword's; the longer one need not be listed, but if it   *)
(*  is listed its substitute must be the text in the output)                                                    *)
NewSelfs(toks, obs) ==
    selfs \cup {p \in {OrigOf(toks[j]) : j \in Bind(toks, obs)} \ DOMAIN db :
                   \/ obs[FirstOf(toks, obs, p)].st = "self"
                   \/ p[1] = "kw" /\ obs[FirstOf(toks, obs, p)].st = "other"}

LeakIdx(toks, obs) == {j \in DOMAIN toks : MustHide(toks[j], cf, CurSp) /\ obs[j].st = "kept"}
PatBad(toks, obs)  == MustDrop(toks, cf, CurSp) /\ \E j \in DOMAIN toks : obs[j].st # "dropped"
ConsBad(toks, obs) ==   \* occurrences whose rendering differs from the one the original already has
    {j \in Occ(toks, obs) : /\ Strict(OrigOf(toks[j])[1])
                            /\ \/ OrigOf(toks[j]) \in DOMAIN db /\ db[OrigOf(toks[j])] # obs[j].v
                               \/ \E i \in Occ(toks, obs) : OrigOf(toks[i]) = OrigOf(toks[j]) /\ obs[i].v # obs[j].v}
InjBad(ndb) == {pq \in (DOMAIN ndb) \X (DOMAIN ndb) :
                   /\ pq[1] # pq[2] /\ pq[1][1] = pq[2][1] /\ pq[1][1] \in {"ip", "host"}
                   /\ ndb[pq[1]] = ndb[pq[2]]}

LineOK ==
    LET toks == Ev.toks  obs == Ev.obs IN
    /\ si >= 1 /\ Len(toks) = Len(obs) /\ Ev.src \in DOMAIN content[si].lines
    \* (a C09 run judges the C09 clauses only, so that a trace goes on to its report event)
    /\ (T.prop = "C09" \/ LeakIdx(toks, obs) = {})   \* NoLeak
    /\ (T.prop = "C09" \/ ~PatBad(toks, obs))        \* PatternDrops
    /\ ConsBad(toks, obs) = {}                      \* Consistent
    /\ InjBad(NewDb(toks, obs)) = {}                \* Injective

(* ---- endspec: C10 provenance and collapse ---- *)
OutProv(out) == [j \in DOMAIN out |-> out[j].src]
ProvOK(out, lines) ==
    /\ \A j \in DOMAIN out : out[j].src = 0 \/ out[j].nm = 1
    /\ IsSubSeq(OutProv(out), InProv(lines))
BlankOK(out, stored, lines, sp, path) ==
    (path # "file" /\ ~Untouched(sp) /\ AllBlankAfter(lines, cf, sp)) => (out = <<>> /\ ~stored)
EndOK ==
    /\ si >= 1
    /\ ProvOK(Ev.out, content[si].lines)
    /\ BlankOK(Ev.out, Ev.stored, content[si].lines, CurSp, Ev.path)

(* ---- report: C09 ReportExact / NoPhantom against the reconstructed db ---- *)
Known(m) == m.k # "unknown"
Key(m)   == <<m.g, IF m.k = "fqdn" THEN 0 ELSE m.id>>
Missing(maps) == {p \in DOMAIN db \ selfs : ~\E m \in Rng(maps) : Known(m) /\ Key(m) = p /\ m.v = db[p]}
Wrong(maps)   == {m \in Rng(maps) : Known(m) /\ Key(m) \in DOMAIN db /\ m.v # db[Key(m)]}
(* listed although it occurred neither as a token of the content (seen), nor textually in it (m.inc: e.g. an   *)
(* address that only arises from a token and its neighbouring digit), nor is the system's own name          *)
Phantom(maps) == {m \in Rng(maps) : ~m.inc /\ ~(Known(m) /\ Key(m) \in seen \cup {Sys})}
ReportOK ==
    /\ Missing(Ev.maps) = {} /\ Wrong(Ev.maps) = {}     \* ReportExact
    /\ Phantom(Ev.maps) = {}                            \* NoPhantom

(* ---- run: C10 one order, one output, under every hash seed ---- *)
Pos(s, x) == CHOOSE i \in DOMAIN s : s[i] = x
Compatible(a, b) == \A x, y \in Rng(a) \cap Rng(b) : (Pos(a, x) < Pos(a, y)) <=> (Pos(b, x) < Pos(b, y))
NoDup(a) == \A i, j \in DOMAIN a : a[i] = a[j] => i = j
OrdersOf(r) == UNION {Rng(r.specs[s].orders) : s \in DOMAIN r.specs}
OrderWithin(r) == \A a, b \in OrdersOf(r) : NoDup(a) /\ Compatible(a, b)
OrderAcross == \A q, r \in Rng(runs) : \A a \in OrdersOf(r), b \in OrdersOf(q) : Compatible(a, b)
SameOut(r) == runs # <<>> =>
                 /\ Len(r.specs) = Len(runs[1].specs)
                 /\ \A s \in DOMAIN r.specs : /\ r.specs[s].sig = runs[1].specs[s].sig
                                              /\ r.specs[s].stored = runs[1].specs[s].stored
SpecsOK(r) == \A s \in DOMAIN r.specs :
                 LET x == r.specs[s]  c == content[x.si] IN
                 /\ ProvOK(x.out, c.lines)
                 /\ BlankOK(x.out, x.stored, c.lines, c.sp, x.path)
(* a run is compared with the first one as soon as it is read (Deterministic); the orders of all runs are      *)
(* compared at the end of the trace (OneOrder), so that a case whose OUTPUT depends on the order is named so *)
(* the caller's configuration objects (the allow list of the spec) are inputs, not state *)
NoSideEffect(r) == \A s \in DOMAIN r.specs : ~r.specs[s].mutated
RunOK == LET r == Ev IN SpecsOK(r) /\ OrderWithin(r) /\ SameOut(r) /\ NoSideEffect(r)

Accepts ==
    CASE Ev.ev = "spec"    -> TRUE
      [] Ev.ev = "line"    -> LineOK
      [] Ev.ev = "endspec" -> EndOK
      [] Ev.ev = "report"  -> ReportOK
      [] Ev.ev = "run"     -> RunOK
      [] Ev.ev = "endruns" -> OrderAcross
      [] OTHER -> FALSE

Keep == UNCHANGED <<phase, cf, ord, run, cur, cnt, outs, report>>
KeepS == UNCHANGED selfs
Apply ==
    CASE Ev.ev = "spec" ->
           /\ content' = Append(content, [sp |-> SpOf(Ev.sp), lines |-> [j \in 1..Ev.n |-> <<>>]])
           /\ si' = si + 1
           /\ Keep /\ KeepS /\ UNCHANGED <<db, seen, runs>>
      [] Ev.ev = "line" ->
           /\ db' = NewDb(Ev.toks, Ev.obs)
           /\ selfs' = NewSelfs(Ev.toks, Ev.obs)
           /\ seen' = seen \cup OccIn(Ev.toks)
           /\ content' = [content EXCEPT ![si].lines[Ev.src] = Ev.toks]
           /\ Keep /\ UNCHANGED <<si, runs>>
      [] Ev.ev = "run" ->
           /\ runs' = Append(runs, Ev)
           /\ Keep /\ KeepS /\ UNCHANGED <<content, si, db, seen>>
      [] OTHER -> Keep /\ KeepS /\ UNCHANGED <<content, si, db, seen, runs>>

-----------------------------------------------------------------------------
(* total verdicts: name the failing clause and the abstract features of the *)
(* failing input                                                            *)
(* T.special: the ids of the family that carry the family's relation         *)
Feat(g, occ) ==
    LET sp2 == \E p \in occ : p[1] = g /\ p[2] \in Rng(T.special) IN
    IF cf.fam = "collide" /\ sp2 THEN "original-equals-issued-substitute"
    ELSE IF cf.fam = "suffix" /\ g = "host" /\ sp2 THEN "name-is-suffix-of-another"
    ELSE IF cf.fam = "prefix" /\ g = "ip" /\ sp2 THEN "address-is-prefix-of-another"
    ELSE IF cf.fam \in {"kwdom", "kwhost"} /\ g \in {"host", "kw"} THEN "keyword-inside-host-name"
    ELSE IF cf.fam = "v6lb" /\ g = "ip6" THEN "address-after-bracket-caret-backtick"
    ELSE IF cf.fam \in {"kwsub", "kwsup"} /\ g = "kw" THEN "keyword-inside-keyword"
    ELSE "plain"
Sw == (IF cf.obf THEN "O" ELSE "o") \o (IF cf.host THEN "H" ELSE "h") \o (IF cf.mac THEN "M" ELSE "m")

(* what exactly is inconsistent about occurrence j *)
Which(p) == IF p[2] \in Rng(T.special) THEN "collision-original" ELSE "ordinary-original"
ConsKind(toks, obs, j) ==
    LET p == OrigOf(toks[j]) IN
    IF obs[j].st \in {"kept", "self"}
      THEN IF p \in DOMAIN db /\ p \notin selfs THEN "left-in-clear-after-being-replaced"
           ELSE "left-in-clear-next-to-a-replaced-occurrence"
      ELSE IF p \in selfs THEN "replaced-after-being-left-in-clear"
           ELSE IF \/ \E q \in DOMAIN db : q # p /\ db[q] = obs[j].v
                   \/ \E i \in Occ(toks, obs) : OrigOf(toks[i]) # p /\ obs[i].v = obs[j].v
                  THEN "rendered-as-another-originals-substitute"
           ELSE IF obs[j].st = "other" THEN "corrupted-rendering"
           ELSE "second-substitute"
DiagCons(toks, obs) ==
    LET bad == ConsBad(toks, obs)
        clr == {i \in bad : obs[i].st \in {"kept", "self"}}       \* name an occurrence left in clear text first
        j == IF clr # {} THEN CHOOSE i \in clr : TRUE ELSE CHOOSE i \in bad : TRUE
        p == OrigOf(toks[j])
        f == Feat(p[1], seen \cup OccIn(toks)) IN
    "Consistent:" \o p[1] \o ":" \o f \o ":" \o ConsKind(toks, obs, j) \o (IF f = "plain" THEN "" ELSE ":" \o Which(p))
DiagInj(toks, obs) ==
    LET pq == CHOOSE pq \in InjBad(NewDb(toks, obs)) : TRUE
        f  == Feat(pq[1][1], seen \cup OccIn(toks)) IN
    "Injective:" \o pq[1][1] \o ":" \o f \o
        (IF f = "plain" THEN ""
         ELSE (IF pq[1][2] \in Rng(T.special) \/ pq[2][2] \in Rng(T.special) THEN ":with-collision-original" ELSE ":ordinary-originals")
              \o (IF {pq[1], pq[2]} \subseteq OccIn(toks) THEN ":on-one-line" ELSE ":across-lines"))
DiagLeak(toks, obs) ==
    LET j == CHOOSE j \in LeakIdx(toks, obs) : TRUE  t == toks[j] IN
    "NoLeak:" \o t.k \o ":" \o t.l \o "-" \o t.r \o (IF t.k = "dom" /\ ~cf.sysdom THEN ":nodomain" ELSE "")
        \o (IF CurSp.width THEN ":width" ELSE "")
        \* the cleaner was built without an explicit fqdn (as every production caller builds it): how it got to know
        \* the system's own name, and whether an inventory label was configured next to it
        \o (IF cf.nofqdn THEN (IF cf.dname THEN ":own-name-from-the-os:display-name-set" ELSE ":own-name-from-the-os") ELSE "")
DiagLine ==
    LET toks == Ev.toks  obs == Ev.obs IN
    IF ~(si >= 1 /\ Len(toks) = Len(obs) /\ Ev.src \in DOMAIN content[si].lines) THEN "line.shape"
    ELSE IF T.prop = "C09" /\ ConsBad(toks, obs) # {} THEN DiagCons(toks, obs)
    ELSE IF T.prop = "C09" /\ InjBad(NewDb(toks, obs)) # {} THEN DiagInj(toks, obs)
    ELSE IF T.prop # "C09" /\ LeakIdx(toks, obs) # {} THEN DiagLeak(toks, obs)
    ELSE IF T.prop # "C09" /\ PatBad(toks, obs) THEN "PatternDrops:" \o (IF cf.regex THEN "regex" ELSE "plain")
    ELSE IF ConsBad(toks, obs) # {} THEN DiagCons(toks, obs)
    ELSE IF InjBad(NewDb(toks, obs)) # {} THEN DiagInj(toks, obs)
    ELSE "line.unknown"

(* the spec's declaration exempts it from every obfuscator (it is a cleaned spec only by redaction / filtering) *)
BlankFeat(sp) == IF AllObf \subseteq sp.noobf THEN ":exempt-from-every-obfuscator" ELSE ""
DiagEnd ==
    IF si < 1 THEN "endspec.shape"
    ELSE IF \E j \in DOMAIN Ev.out : Ev.out[j].src # 0 /\ Ev.out[j].nm # 1 THEN "ProvenanceMonotone:not-one-source"
    ELSE IF ~ProvOK(Ev.out, content[si].lines) THEN "ProvenanceMonotone:order"
    ELSE "BlankCollapses:" \o Ev.path \o BlankFeat(CurSp)

DiagReport ==
    IF Missing(Ev.maps) # {} THEN
        LET p == CHOOSE p \in Missing(Ev.maps) : TRUE IN
        "ReportExact:" \o p[1] \o ":" \o Feat(p[1], seen) \o
            (IF \E m \in Rng(Ev.maps) : Known(m) /\ Key(m) = p THEN ":other-substitute" ELSE ":unlisted") \o
            (IF Feat(p[1], seen) = "plain" THEN "" ELSE ":" \o Which(p))
    ELSE IF Wrong(Ev.maps) # {} THEN
        LET m == CHOOSE m \in Wrong(Ev.maps) : TRUE IN "ReportExact:" \o m.g \o ":" \o Feat(m.g, seen) \o ":conflict"
    ELSE LET m == CHOOSE m \in Phantom(Ev.maps) : TRUE IN
         "NoPhantom:" \o m.g \o (IF cf.nofqdn THEN (IF cf.dname THEN ":own-name-from-the-os:display-name-set" ELSE ":own-name-from-the-os") ELSE "")

DiagRun ==
    LET r == Ev IN
    IF ~SpecsOK(r) THEN
        LET s == CHOOSE s \in DOMAIN r.specs : ~(ProvOK(r.specs[s].out, content[r.specs[s].si].lines)
                     /\ BlankOK(r.specs[s].out, r.specs[s].stored, content[r.specs[s].si].lines,
                                content[r.specs[s].si].sp, r.specs[s].path))
            x == r.specs[s] IN
        IF \E j \in DOMAIN x.out : x.out[j].src # 0 /\ x.out[j].nm # 1 THEN "ProvenanceMonotone:not-one-source"
        ELSE IF ~ProvOK(x.out, content[x.si].lines) THEN "ProvenanceMonotone:order"
        ELSE "BlankCollapses:" \o x.path \o BlankFeat(content[x.si].sp)
    ELSE IF ~SameOut(r) THEN "Deterministic:" \o cf.fam \o
             (IF r.hs = runs[1].hs THEN ":same-process-fresh-cleaner" ELSE ":across-hash-seeds")
    ELSE IF ~NoSideEffect(r) THEN "Deterministic:" \o cf.fam \o ":caller-allowlist-consumed"
    ELSE "OneOrder:within-one-process"

Diagnose ==
    CASE Ev.ev = "line"    -> DiagLine
      [] Ev.ev = "endspec" -> DiagEnd
      [] Ev.ev = "report"  -> DiagReport
      [] Ev.ev = "run"     -> DiagRun
      [] Ev.ev = "endruns" -> "OneOrder:across-hash-seeds"
      [] Ev.ev = "raised"  -> "Raised:" \o Ev.stage \o ":" \o Ev.exc      \* the cleaner raised on a legal input: no step of the spec
      [] OTHER -> "unknown-event"

Advance ==
    IF tid < Len(Batch)
      THEN /\ tid' = tid + 1 /\ l' = 0
           /\ NextFrom(Batch[tid + 1])
      ELSE /\ tid' = Len(Batch) + 1 /\ l' = 0
           /\ UNCHANGED <<vars, selfs>>

TraceInit == tid = 1 /\ l = 0 /\ InitFrom(Batch[1])

TraceNext ==
    /\ tid <= Len(Batch)
    /\ IF ~More
         THEN TLCSet(2, TLCGet(2) + l) /\ Advance
         ELSE IF Accepts
           THEN Apply /\ l' = l + 1 /\ tid' = tid
           ELSE /\ TLCSet(1, TLCGet(1) \cup {[id |-> T.id, line |-> l + 1, clause |-> Diagnose]})
                /\ TLCSet(2, TLCGet(2) + l)
                /\ Advance
TraceSpec == TraceInit /\ [][TraceNext]_tvars

ASSUME TLCSet(1, {}) /\ TLCSet(2, 0)

Post ==
    /\ \A r \in TLCGet(1) : PrintT(<<"REJ", ToJson(r)>>)
    /\ PrintT(<<"STAT", ToJson([traces |-> Len(Batch), events |-> TLCGet(2)])>>)

=============================================================================
