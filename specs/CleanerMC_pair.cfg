\* generated from harness/p_cleaner.py CONFIGS['pair']; the check generates its cfgs at run time
SPECIFICATION Spec
CONSTANTS
  Kinds = {"text", "ip", "loop", "short", "fqdn", "dom", "mac", "nullmac", "kw", "pat", "pw"}
  NIp = 2
  NDom = 1
  NMac = 1
  NKw = 1
  NPat = 1
  NIp6 = 1
  NAk = 1
  V6Set = {FALSE}
  NoFqdnSet = {FALSE}
  DnameSet = {FALSE}
  DelSet = {"space", "punct"}
  MaxTok = 2
  MaxLines = 1
  MaxSpecs = 1
  TotLines = 1
  ObfSet = {TRUE}
  HostSet = {TRUE}
  MacSet = {TRUE}
  KwSets = {{1}}
  PatSets = {{}, {1}}
  RegexSet = {FALSE, TRUE}
  SysDomSet = {TRUE}
  NoRedSet = {FALSE}
  NoObfSets = {{}}
  WidthSet = {FALSE}
  AllowSet = {0}
  FamSet = {"plain", "prefix"}
  AllowBlank = FALSE
  Runs = 1
  AllOrders = FALSE
  FreeOrder = FALSE
INVARIANT NoLeak
INVARIANT PatternDrops
INVARIANT Rewritten
INVARIANT Injective
INVARIANT ReportExact
INVARIANT NoPhantom
INVARIANT ProvenanceMonotone
INVARIANT BlankCollapses
INVARIANT OneOrder
INVARIANT Deterministic
PROPERTY Consistent
CONSTRAINT Emit
CHECK_DEADLOCK FALSE
