SPECIFICATION SpecSim
CONSTANTS
  N = 4
  Kinds = {"text", "raw", "command", "cfile", "ccmd", "datasource"}
  Atoms = {"p", "b", "n", "L", "f", "g"}
  MinLines = 0
  MaxLines = 4
  MaxElems = 3
  SaveAsSet = {"none", "file", "dir"}
  Modes = {"deleted", "truncated", "nonjson", "unknown", "shape", "datagone", "unopenable"}
  MayFail = TRUE
  OutcomeSet = {"content", "cmd", "timeout", "crash", "skip"}
  BackedSet = {FALSE, TRUE}
  FilterSet = {FALSE}
  Budget = 2
  BudgetMode = "per-load"
  RecordMode = "component"
  PoolSet = {FALSE, TRUE}
  AssembleMode = "index"
  LateSet = {FALSE, TRUE}
  LookupMode = "live"
  MaxFaults = 4
INVARIANT RoundTrip
INVARIANT ErrorsPersisted
INVARIANT FaultIsolation
CONSTRAINT Emit
CHECK_DEADLOCK FALSE
