SPECIFICATION Spec
CONSTANTS
  Dirs = {"a", "insights_commands_not", "insights_commands"}
  Leaves = {"f", "insights_commands"}
  MaxFiles = 2
  MaxDepth = 3
  Packs = {"dir"}
  Wraps = {FALSE}
  Evils = {"none"}
  Overrides = {"none"}
  Wheres = {"plain"}
  Injects = {"none"}
  Plugs = {"none"}
  Modes = {"api"}
  Spaces = {"none"}
  Mech = "intended"
  Admit = {}
INVARIANT TypeOK
INVARIANT MarkerPriority
INVARIANT TriedInOrder
INVARIANT DefaultWhenNoMarker
INVARIANT RootInsideInput
INVARIANT OverrideWins
INVARIANT CreateAllowed
INVARIANT ListedExactly
INVARIANT BrokerSeededExactly
INVARIANT ExtractionStaysInTempDir
INVARIANT TempDirRemoved
INVARIANT ContextDeterministic
INVARIANT Ends
CONSTRAINT Emit
CHECK_DEADLOCK FALSE
