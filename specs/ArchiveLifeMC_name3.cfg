SPECIFICATION MCSpec
CONSTANTS
  CopyArgs = {"f1", "f2", "missing", "glob"}
  DirArgs = {"dir", "missing"}
  PathForms = {"plain", "slash", "dslash"}
  PlantSets = {{}, {"old"}, {"old", "recent", "other", "link", "keptold"}, {"recent", "link"}, {"old", "other", "keptold"}}
  Depth = 3
  OpsSel = "name"
  InitSel = "bare"
INVARIANT TypeOK
INVARIANT I_Structure
INVARIANT I_Confined
INVARIANT I_PrevOnlyOld
INVARIANT I_AdirIsAdded
INVARIANT I_TarIsPacked
INVARIANT I_KeptIsPacked
INVARIANT I_AfterCleanup
INVARIANT I_GhostRt
CONSTRAINT Emit
CHECK_DEADLOCK FALSE
