------------------------------- MODULE SerdeMC -------------------------------
(* Model-checking wrapper of Serde: emits one CASE per (archive, corruption) *)
(* for the replay driver (harness/drive_serde.py); the hydration orders are  *)
(* explored by TLC below each emitted state.  SpecSim draws the entries at   *)
(* random for -simulate, where the exhaustive Dehydrate / Corrupt steps have *)
(* too many successors.                                                      *)
EXTENDS Serde, Json

Emit ==
    (phase = "load" /\ hyd = <<>>) =>
        PrintT(<<"CASE", ToJson([entries |-> entries, fault |-> fault, pooled |-> pooled])>>)

Pick(S) == {RandomElement(S)}
RandLines(j) == [i \in 1..RandomElement(MinLines..MaxLines) |-> RandomElement(LineSet)]   \* parameter: no caching

DehydrateSim ==
    /\ phase = "collect" /\ pos <= N /\ inflight.c = 0
    /\ \E k \in Pick(Kinds), m \in Pick(IF MaxElems = 0 THEN {FALSE} ELSE BOOLEAN),
          fl \in Pick(IF MayFail THEN {FALSE, FALSE, FALSE, TRUE} ELSE {FALSE}),
          oc \in Pick(OutcomeSet \cup {"crash"}), bk \in Pick(BackedSet), lt \in Pick(LateSet) :
       \E sa \in Pick(IF m THEN SaveAsOf(k) \ {"file"} ELSE SaveAsOf(k)),
          n \in Pick(IF m THEN 1..MaxElems ELSE {1}) :
       \E lss \in {[j \in 1..n |-> RandLines(j)]} :
          DehydrateWith(IF fl THEN NoValue(oc, bk)
                        ELSE [kind |-> k, multi |-> m, failed |-> FALSE, outcome |-> "ok", backed |-> bk, filtered |-> FALSE, late |-> lt, saveas |-> sa,
                              elems |-> [j \in 1..n |-> Elem(lss[j], CmdOf(k, pos, j), ArgsOf(k, pos, j, m))]])

CorruptSim ==
    /\ phase = "corrupt"
    /\ \E f \in {[c \in Comp |-> IF RandomElement(1..3) = 1 THEN RandomElement(Modes) ELSE "none"]} :
         LET g == [c \in Comp |-> IF f[c] = "datagone" /\ ~(meta[c].hasres /\ meta[c].res # <<>>) THEN "none" ELSE f[c]] IN
         /\ fault' = g
         /\ meta' = DamageAll(g, {c \in Comp : g[c] # "none"}, meta)
         /\ data' = {d \in data : ~\E c \in Comp : g[c] = "datagone" /\ d.rel \in RelsOf(c)}
    /\ phase' = "load"
    /\ UNCHANGED <<entries, pos, hyd, loaded, pooled, inflight>>

NextSim == DehydrateSim \/ SerializeAny \/ DehydrateEnd \/ CorruptSim \/ HydrateAny \/ Finish
SpecSim == Init /\ [][NextSim]_vars
=============================================================================
