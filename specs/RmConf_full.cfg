SPECIFICATION Spec
CONSTANTS
  MECH = "intent"
  YV = {"none", "one"}
  PV = {"none", "rx1"}
  LV = {"none", "one"}
INVARIANT TypeOK
INVARIANT I_Function
INVARIANT I_Loud
INVARIANT I_Precedence
INVARIANT I_EmptyIsNone
INVARIANT I_DenyExact
INVARIANT I_CleanExact
INVARIANT I_Switches
INVARIANT I_ReportTotal
CHECK_DEADLOCK FALSE
