SPECIFICATION Spec
CONSTANTS
  MECH = "intent"
  YV = {"none", "one", "str"}
  PV = {"none", "one", "rx1", "rxstr"}
  LV = {"none", "one"}
INVARIANT TypeOK
INVARIANT I_Function
INVARIANT I_Loud
INVARIANT I_Precedence
INVARIANT I_EmptyIsNone
INVARIANT I_DenyExact
INVARIANT I_CleanExact
INVARIANT I_Switches
INVARIANT I_ReportTotal
CHECK_DEADLOCK FALSE
