\* the transcription of the code: TLC is EXPECTED to refute I_EmptyIsNone
SPECIFICATION MCSpec
CONSTANTS
  MECH = "code"
  YV = {"none"}
  PV = {"none"}
  LV = {"none"}
  Fam = "con"
INVARIANT I_EmptyIsNone
CHECK_DEADLOCK FALSE
