\* the transcription of the code: TLC is EXPECTED to refute I_Function
SPECIFICATION MCSpec
CONSTANTS
  MECH = "code"
  YV = {"none"}
  PV = {"none"}
  LV = {"none"}
  Fam = "leg"
INVARIANT I_Function
CHECK_DEADLOCK FALSE
