\* the transcription of the code on the 'arrow' inputs: TLC is EXPECTED to refute F_CodeMeetsReference
SPECIFICATION Spec
CONSTANTS
  Fam = "entry"
  N = 1
  Admit = {"arrow"}
INVARIANT F_CodeMeetsReference
CHECK_DEADLOCK FALSE
