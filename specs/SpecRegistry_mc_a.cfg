\* quick-tier configuration "all3x2" (harness/p_specreg.py generates the configurations it runs)
SPECIFICATION Spec
CONSTANTS
  NCtx = 2
  MaxImpl = 3
  MaxAny = 2
  KindSet = {"req", "any", "via", "viaimpl"}
  AllowSeed = TRUE
  MaxLvl = 1
  MidEval = TRUE
INVARIANT ResolvesToLatest
INVARIANT EarlierNotExecuted
INVARIANT OtherContextsSilent
INVARIANT AbsentNotBackfilled
INVARIANT SeededResolvesToLatest
INVARIANT SeededAvail
INVARIANT IgnoreExact
INVARIANT HandlersDeclared
INVARIANT PointDepsInOrder
CHECK_DEADLOCK FALSE
