SPECIFICATION Spec
CONSTANTS
  NCtx = 3
  MaxImpl = 3
  MaxAny = 2
  KindSet = {"req", "any", "via", "viaimpl"}
  AllowSeed = TRUE
INVARIANT ResolvesToLatest
INVARIANT EarlierNotExecuted
INVARIANT OtherContextsSilent
INVARIANT AbsentNotBackfilled
INVARIANT SeededResolvesToLatest
INVARIANT IgnoreExact
INVARIANT HandlersDeclared
INVARIANT PointDepsInOrder
CONSTRAINT Emit
CHECK_DEADLOCK FALSE
