SPECIFICATION Spec
CONSTANTS
  MaxN = 3
  Rd1 = {"no"}
  RdK = {"pass"}
  Outs = {"p"}
  Rcs = {"0", "1", "2", "sig"}
  Slows = {FALSE}
  Errs = {FALSE}
  MaxOdd = 3
  Apis = {"call", "write", "shell"}
  Keeps = {FALSE, TRUE}
  Tmos = {"none"}
  Sigs = {"KILL"}
  Splits = {TRUE}
  Forms = {"list"}
  Metas = {FALSE}
  Envs = {"none"}
  Bares = {FALSE}
  Flts = {"none"}
  Mechs = {"code", "intended"}
  Admit = {}
INVARIANT TypeOK
INVARIANT ResultIsLastStageOutput
INVARIANT RcPolicy
INVARIANT NotFoundIsAnError
INVARIANT ExceptionCarriesOutput
INVARIANT TimeoutTerminates
INVARIANT Terminates
INVARIANT NoneRunningAtReturn
INVARIANT NothingStuck
INVARIANT AllReapedButKnown
INVARIANT NeverReadsCallerStdin
INVARIANT NoShell
INVARIANT EnvIsControlled
INVARIANT StreamEqualsCall
CONSTRAINT EmitCase
CHECK_DEADLOCK FALSE
