---------------------------- MODULE PlaybookTrace ----------------------------
(***************************************************************************)
(* Trace validation for C18.  The driver ran the REAL verifier on plays    *)
(* (TLC-enumerated ones and seeded random ones with their edits) and       *)
(* recorded, per play and route, the outcome and the digest that reached   *)
(* the (stubbed) GPG boundary.  A trace is                                 *)
(*                                                                         *)
(*   [id, kind, plays |-> <<flat play, ...>>, events |-> <<e, ...>>]       *)
(*   e = [ev |-> "obs" | "end", p |-> index into plays, via, build,        *)
(*        out |-> "ok" | "err" | "crash:<type>", digest |-> hex or "",     *)
(*        revoked |-> <<hex, ...>>, ldoc |-> index into plays of the       *)
(*        revocation list document, lparse, lvalid |-> BOOLEAN]            *)
(*                                                                         *)
(* kind "class": all observations of the batch that produced one digest    *)
(*   (or, digest "", all non-accepting observations of one play).  Every   *)
(*   observation must agree with the outcome table, and all plays of the   *)
(*   class must have the same Excl (Injective: equal digest => equal       *)
(*   Excl).                                                                *)
(* kind "reps": one observation per digest class of the whole batch,       *)
(*   closed by an "end" event: the Excl values must be pairwise different  *)
(*   (equal Excl => equal digest: excluded elements are invisible, the     *)
(*   digest is a function of Excl alone, whatever the build route).        *)
(* Together: over ALL pairs of the batch, digest[p] = digest[q] <=>         *)
(* Excl(p) = Excl(q).                                                      *)
(***************************************************************************)
EXTENDS Playbook, Json, IOUtils, TLCExt

Batch == JsonDeserialize(IOEnv.TRACE_FILE)

VARIABLES tid, l, cur
tvars == <<tid, l, cur>>

T    == Batch[tid]
Ev   == T.events[l + 1]
More == l < Len(T.events)
PlayOf(e) == T.plays[e.p]
NoCur == [set |-> FALSE, x |-> <<>>]

(* The revocation list is a document of its own, verified like a play (verify_play) before it is   *)
(* trusted: e.lparse (it is YAML at all), Pre(list document) (vars, signature, exclusion list),     *)
(* e.lvalid (the answer of the stubbed GPG for it).  "" = usable; any other value = the reason why  *)
(* verification of the PLAYBOOK must fail - an ill-formed or unverifiable list is never "no         *)
(* revocations".  "unspecified" = the property is silent (see Why).                                 *)
ListWhy(e) ==
    IF ~e.lparse THEN "unparsable"
    ELSE LET w == Why(T.plays[e.ldoc], "verify_play") IN
         IF w # "" THEN w ELSE IF ~e.lvalid THEN "bad-signature" ELSE ""

(* everything the reference says about one observation, computed once *)
Judge(e) ==
    LET p == PlayOf(e)
        w == Why(p, e.via)                     \* "" = acceptable
        pr == IF w = "" THEN "ok" ELSE IF w = "unspecified" THEN "any" ELSE "err"
        x == IF w = "" THEN Excl(p) ELSE <<>>
        lw == IF e.via = "verify" THEN ListWhy(e) ELSE ""
        exp == IF pr = "any" THEN "any" ELSE IF pr = "err" THEN "err"
               ELSE IF lw = "unspecified" THEN "any"
               ELSE IF lw # "" THEN "err"                                            \* unusable revocation list
               ELSE IF e.via = "verify" /\ e.digest \in Rng(e.revoked) THEN "err"      \* revocation branch of verify()
               ELSE "ok"
    IN [why |-> w, pre |-> pr, x |-> x, exp |-> exp, lwhy |-> lw,
        con |-> pr = "ok" /\ e.digest # "",                                         \* takes part in the digest comparison
        \* outcome table; a digest reaches the GPG boundary iff the play is acceptable (with an unusable
        \* revocation list the order of the two verifications is not prescribed: digest or none)
        tab |-> exp = "any" \/ (exp = e.out /\ (lw # "" \/ ((pr = "ok") <=> (e.digest # ""))))]
\* (hence: a play is never accepted unless a digest of it was checked against its signature)

Constrained(e) == Why(PlayOf(e), e.via) = "" /\ e.digest # ""

RepObs == {e \in Rng(T.events) : e.ev = "obs" /\ Constrained(e)}

RepsOK == Cardinality({Excl(PlayOf(e)) : e \in RepObs}) = Cardinality({e.digest : e \in RepObs})

Accepts(j) ==
    CASE Ev.ev = "end" -> (T.kind = "reps" => RepsOK)
      [] T.kind = "reps" -> Ev.ev = "obs"
      [] OTHER ->
           /\ Ev.ev = "obs"
           /\ Ev.digest = T.events[1].digest                        \* the harness grouped correctly
           /\ j.tab
           /\ (j.con /\ cur.set) => j.x = cur.x                     \* Injective: equal digest => equal Excl

Apply(j) ==
    IF Ev.ev = "obs" /\ T.kind = "class" /\ j.con /\ ~cur.set
      THEN cur' = [set |-> TRUE, x |-> j.x]
      ELSE cur' = cur

(* ---- diagnosis ---- *)
RECURSIVE JoinStr(_)
JoinStr(S) == IF S = {} THEN "" ELSE LET x == CHOOSE x \in S : TRUE IN
              x \o (IF S \ {x} = {} THEN "" ELSE "+") \o JoinStr(S \ {x})

DiagTable(e) ==
    IF e.out = "ok" /\ e.digest = "" /\ Judge(e).exp = "ok" THEN "Table:" \o e.via \o ":accepted-without-digest-check" ELSE
    "Table:" \o e.via \o ":expected-" \o Judge(e).exp \o ":" \o
    (IF Why(PlayOf(e), e.via) # "" THEN Why(PlayOf(e), e.via)
     ELSE IF Judge(e).lwhy # "" THEN "revocation-list-" \o Judge(e).lwhy
     ELSE IF e.via = "verify" /\ e.digest \in Rng(e.revoked) THEN "revoked" ELSE "acceptable") \o
    ":observed-" \o (IF e.out = "ok" \/ e.out = "err" THEN e.out ELSE "crash")

DiagClass ==
    IF Ev.ev # "obs" THEN "machinery:event-shape"
    ELSE IF Ev.digest # T.events[1].digest THEN "machinery:mixed-class"
    ELSE IF ~Judge(Ev).tab THEN DiagTable(Ev)
    ELSE \* collision: name every kind of difference present in this digest class
         LET rest == {i \in (l + 1)..Len(T.events) :
                        T.events[i].ev = "obs" /\ Constrained(T.events[i]) /\ Excl(PlayOf(T.events[i])) # cur.x}
         IN "Injective.collision:" \o JoinStr({DiffKind(cur.x, Excl(PlayOf(T.events[i]))) : i \in rest})

DiagReps ==          \* quadratic, but only evaluated when RepsOK fails
    LET P == {<<Excl(PlayOf(e)), e>> : e \in RepObs}
        bad == {ab \in P \X P : ab[1][1] = ab[2][1] /\ ab[1][2].digest # ab[2][2].digest}
        kind(a, b) == IF PlayOf(a) = PlayOf(b) THEN
                          (IF a.build # b.build THEN "build-route" ELSE IF a.via # b.via THEN "call-route"
                           ELSE "nondeterministic")
                      ELSE "excluded-element-visible"
    IN IF bad = {} THEN "machinery:digest-listed-twice"
       ELSE "Function.split:" \o JoinStr({kind(ab[1][2], ab[2][2]) : ab \in bad})

Diagnose == IF T.kind = "reps" THEN (IF Ev.ev = "end" THEN DiagReps ELSE "machinery:event-shape") ELSE DiagClass

Advance ==
    /\ cur' = NoCur
    /\ IF tid < Len(Batch) THEN tid' = tid + 1 /\ l' = 0
                           ELSE tid' = Len(Batch) + 1 /\ l' = 0

TraceInit == tid = 1 /\ l = 0 /\ cur = NoCur

TraceNext ==
    /\ tid <= Len(Batch)
    /\ IF ~More
         THEN TLCSet(2, TLCGet(2) + l) /\ Advance
         ELSE LET j == IF Ev.ev = "obs" /\ T.kind = "class" THEN Judge(Ev) ELSE [con |-> FALSE] IN
              IF Accepts(j)
           THEN Apply(j) /\ l' = l + 1 /\ tid' = tid
           ELSE /\ TLCSet(1, TLCGet(1) \cup {[id |-> T.id, line |-> l + 1, clause |-> Diagnose]})
                /\ TLCSet(2, TLCGet(2) + l)
                /\ Advance
TraceSpec == TraceInit /\ [][TraceNext]_tvars

ASSUME TLCSet(1, {}) /\ TLCSet(2, 0)

Post ==
    /\ \A r \in TLCGet(1) : PrintT(<<"REJ", ToJson(r)>>)
    /\ PrintT(<<"STAT", ToJson([traces |-> Len(Batch), events |-> TLCGet(2)])>>)
=============================================================================
