\* the cache rule of filters.py:93-94 (only the component a filter is stored on): TLC finds the stale look-up (D4)
SPECIFICATION SpecHist
CONSTANTS
  NP = 2
  BudSet = {1, 2}
  Depth = 5
  CacheRule = "self"
  AddSet = {"I1", "I2", "P", "I3", "P2", "Q1", "Q2", "K"}
  GetSet = {"I1", "I2", "P", "I3"}
  PatSets = {{1}, {2}, {1, 2}, {0}}
  MaxLines = 0
  CBudSet = {0}
  PathSet = {"archive"}
INVARIANT LookupIsUnionInv
INVARIANT TableIsUnion
PROPERTY LookupIsUnion
CHECK_DEADLOCK FALSE
