\* the cache rule of insights/core/filters.py:93-94 (only the component a filter is stored on is invalidated):
\* TLC finds the stale look-up (D4) - get(I1), add(P, {1}), get(I1).  Expected result: LookupIsUnionInv violated.
SPECIFICATION SpecHist
CONSTANTS
  NP = 2
  BudSet = {1}
  Depth = 5
  CacheRule = "self"
  AddSet = {"I1", "I2", "P", "I3", "P2", "Q1", "Q2", "K"}
  GetSet = {"I1", "I2", "P", "D1", "D0"}
  PatSets = {{1}, {2}, {0}}
  MaxLines = 0
  CBudSet = {0}
  PathSet = {"archive"}
INVARIANT LookupIsUnionInv
INVARIANT TableIsUnion
INVARIANT LookupBudgetsInv
CHECK_DEADLOCK FALSE
