SPECIFICATION TraceSpec
CONSTANTS
  N = 6
  KindSet = {"plain"}
  OutSet = {"val"}
  ElemOutSet = {"val"}
  MaxItems = 0
  MaxGrp = 0
  ListLen = 2
  AllowDisabled = FALSE
  AllowSeeded = FALSE
  AllowOutOfGraph = FALSE
  AllowIgnore = FALSE
  SSSet = {FALSE}
  ModeSet = {"single"}
  Workers = 1
  ArchSet = {FALSE}
POSTCONDITION Post
CHECK_DEADLOCK FALSE
