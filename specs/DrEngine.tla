------------------------------ MODULE DrEngine ------------------------------
(***************************************************************************)
(* The dependency-resolution engine of insights-core                       *)
(* (insights/core/dr.py, insights/core/plugins.py).                        *)
(*                                                                         *)
(* A behaviour has three phases.                                           *)
(*   define : components are registered one at a time (one Define step =   *)
(*            one decorator application, dr._register_component).  A       *)
(*            component may only depend on components registered earlier,  *)
(*            so every behaviour describes an acyclic program and every    *)
(*            labelled DAG is reached.                                     *)
(*   run    : dr.run / run_components / run_incremental / run_all.  One    *)
(*            Attempt step = one iteration of the loop in run_components   *)
(*            (dr.py:1064-1097).  Attempt is enabled for ANY component     *)
(*            whose in-graph dependencies were attempted: every linear     *)
(*            extension is a behaviour.  Sub-graphs are taken by workers   *)
(*            (Take), so single pass, incremental and pooled evaluation    *)
(*            are the same machine with different constants.               *)
(*   done   : everything attempted.                                        *)
(*                                                                         *)
(* Properties C01-C04 of /verif/properties.jsonl are the invariants at the *)
(* end of the module.                                                      *)
(***************************************************************************)
EXTENDS Naturals, Sequences, FiniteSets, TLC, SequencesExt, FiniteSetsExt

CONSTANTS
    N,              \* number of components
    KindSet,        \* kinds explored: "plain","datasource","parser","combiner","rule","condition","point"
    OutSet,         \* body outcomes explored: "val","none","falsy","list","skip","content","cmd","timeout","crash"
    ElemOutSet,     \* per-element outcomes of a parser fed a list
    MaxItems,       \* declaration items per component
    MaxGrp,         \* members per at-least-one group
    ListLen,        \* length of list values
    AllowDisabled, AllowSeeded, AllowOutOfGraph, AllowIgnore,   \* BOOLEAN switches
    SSSet,          \* values of Broker.store_skips explored
    ModeSet,        \* "single", "incr", "pool"
    ArchSet,        \* values explored for "the broker holds a SerializedArchiveContext" (dr.run prunes the graph)
    Workers         \* pool size in mode "pool"

VARIABLES
    phase,      \* "define" | "run" | "done"
    prog,       \* Seq of component definitions, prog[c] for c \in 1..Len(prog)
    ss,         \* Broker.store_skips
    mode,       \* driver
    arch,       \* the broker holds a SerializedArchiveContext: analysis of a collected archive
    subs,       \* Seq of sets of components: the sub-graphs, in dispatch order
    nextSub,    \* next sub-graph to hand out
    cur,        \* [1..W -> 0..Len(subs)] sub-graph a worker is evaluating (0 = idle)
    inst,       \* [Comp -> Val]      Broker.instances (projected)
    missing,    \* [Comp -> MissRec]  Broker.missing_requirements
    excs,       \* set of ExcRec      Broker.exceptions / tracebacks (projected)
    att,        \* Seq of [w, c]      loop iterations so far, in order
    calls       \* Seq of [c, args, el]  body invocations so far, in order

vars == <<phase, prog, ss, mode, arch, subs, nextSub, cur, inst, missing, excs, att, calls>>

Comp    == 1..N
Low(c)  == 1..(c - 1)
FailKinds == {"skip", "content", "cmd", "timeout", "crash"}
HardFail  == {"content", "cmd", "timeout", "crash"}   \* "every exception other than the skip signal":
                                                      \* a content error is a fault of its own in the property's
                                                      \* quantifier, although ContentException IS-A SkipComponent

-----------------------------------------------------------------------------
(* Values.  One record shape for everything so that TLC never compares      *)
(* values of different types.                                               *)
V(k, c, xs)   == [k |-> k, c |-> c, xs |-> xs, mr |-> <<>>, mg |-> <<>>]
Absent        == V("absent", 0, <<>>)
NoneV         == V("none", 0, <<>>)
SeedV(c)      == V("seed", c, <<>>)
PlainV(c)     == V("v", c, <<>>)
FalsyV(c)     == V("falsy", c, <<>>)     \* a real value that is false in a boolean context (0, "", [], False)
ListV(c)      == V("list", c, [i \in 1..ListLen |-> i])
PListV(c, xs) == V("plist", c, xs)
RespV(c)      == V("resp", c, <<>>)
NoneResp      == V("noneresp", 0, <<>>)
SkipResp(c, m) == [k |-> "skipresp", c |-> c, xs |-> <<>>, mr |-> m.mr, mg |-> m.mg]
ElemOf(v, j)  == IF v.k = "list" THEN V("elem", v.c, <<v.xs[j]>>) ELSE V("res", v.c, <<v.xs[j]>>)
IsList(v)     == v.k \in {"list", "plist"}

NoMiss        == [set |-> FALSE, mr |-> <<>>, mg |-> <<>>]

-----------------------------------------------------------------------------
(* Declarations (ComponentType.__init__, dr.py:709-755).                    *)
(* An item is a required dependency, an at-least-one group or an optional   *)
(* dependency; optional ones come last (they are a keyword argument).       *)
InjSeqs(S, lo, hi) == {s \in UNION {[1..n -> S] : n \in lo..hi} : \A i, j \in DOMAIN s : s[i] = s[j] => i = j}
Items(L)  == [t : {"req", "opt"}, ds : {<<d>> : d \in L}] \cup [t : {"grp"}, ds : InjSeqs(L, 1, MaxGrp)]
DeclOK(d) == \A i, j \in DOMAIN d : (i < j /\ d[i].t = "opt") => d[j].t = "opt"
Decls(L)  == {d \in UNION {[1..n -> Items(L)] : n \in 0..MaxItems} : DeclOK(d)}

RECURSIVE FlatSeq(_)
FlatSeq(d)   == IF d = <<>> THEN <<>> ELSE Head(d).ds \o FlatSeq(Tail(d))
ReqOf(d)     == LET r == SelectSeq(d, LAMBDA it : it.t = "req") IN [i \in DOMAIN r |-> r[i].ds[1]]
GrpOf(d)     == LET g == SelectSeq(d, LAMBDA it : it.t = "grp") IN [i \in DOMAIN g |-> g[i].ds]
(* What registration leaves on the delegate; the trace module fills these   *)
(* three fields from the real delegate instead of from a declaration.       *)
Flat(c)      == prog[c].flat                              \* delegate.deps
Requires(c)  == prog[c].req                               \* delegate.requires
Groups(c)    == prog[c].grp                               \* delegate.at_least_one
DepSet(c)    == {Flat(c)[i] : i \in DOMAIN Flat(c)}       \* delegate.dependencies
Defined      == 1..Len(prog)
Kind(c)      == prog[c].kind
Dependents(c) == {x \in Defined : c \in DepSet(x)}

(* get_registry_points (dr.py:424-465): a datasource looks through its     *)
(* dependents, anything else through its dependencies; the walk stops at   *)
(* a registry point.                                                       *)
RECURSIVE DownPts(_), UpPts(_)
DownPts(c) == UNION {IF Kind(x) = "point" THEN {x} ELSE DownPts(x) : x \in Dependents(c)}
UpPts(c)   == UNION {IF Kind(x) = "point" THEN {x} ELSE UpPts(x) : x \in DepSet(c)}
RegPts(c)  == IF Kind(c) = "point" THEN {c}
              ELSE IF Kind(c) = "datasource" THEN DownPts(c) ELSE UpPts(c)
(* "the specs it implements or is built on"                                *)
MayFileUnder(c) == {c} \cup DownPts(c) \cup UpPts(c)

(* A seeded component is never run, so its otherwise unused outcome field    *)
(* chooses what it is seeded with: a value, or None (present, but None).     *)
SeedVal(c) == IF prog[c].outc = "none" THEN NoneV ELSE SeedV(c)
(* The evaluated graph.  When the broker holds a SerializedArchiveContext,    *)
(* dr.run (dr.py:1121-1129) drops the direct dependencies of every component *)
(* that is already in the broker: what was loaded from the archive is not    *)
(* collected again.                                                          *)
Flagged == {c \in Defined : prog[c].ingraph}
Loaded  == {c \in Defined : prog[c].seeded}
Pruned  == Flagged \ UNION {{prog[c].flat[i] : i \in DOMAIN prog[c].flat} : c \in Flagged \cap Loaded}
Graph   == IF arch THEN Pruned ELSE Flagged
(* dr.get_dependency_graph / determine_components: when the caller names      *)
(* targets instead of handing over a graph, the evaluated graph is their      *)
(* dependency closure.                                                        *)
RECURSIVE DepClosure(_)
DepClosure(S) == LET S2 == S \cup UNION {{prog[c].flat[i] : i \in DOMAIN prog[c].flat} : c \in S}
                 IN IF S2 = S THEN S ELSE DepClosure(S2)
Targets == {c \in Defined : prog[c].target}
Seeded == {c \in Defined : prog[c].seeded}

-----------------------------------------------------------------------------
(* Phase 1: registering components                                         *)
OutsOf(k) == CASE k = "rule"  -> OutSet \ {"list", "falsy"}
               [] k = "point" -> {"val"}
               [] OTHER       -> OutSet

FreeDs == {d \in Defined : Kind(d) = "datasource" /\ \A p \in Defined : Kind(p) = "point" => d \notin DepSet(p)}

DeclsFor(k) ==
    CASE k = "point"  -> {<<[t |-> "grp", ds |-> s]>> : s \in InjSeqs(FreeDs, 0, MaxGrp)}
      [] k = "parser" -> {d \in Decls(Defined) : d # <<>> /\ d[1].t = "req" /\ \A i \in DOMAIN d : d[i].t # "opt"}
                         \* parser.__init__ does not forward optional= (plugins.py:143-146)
      [] OTHER        -> Decls(Defined)

MayBeList(d) == Kind(d) \in {"point", "parser"} \/ prog[d].outc = "list"

DefineWith(k, o, d, en, sd, ig, coe, ign, eo) ==
    /\ prog' = Append(prog, [kind |-> k, decl |-> d, req |-> ReqOf(d), grp |-> GrpOf(d), flat |-> FlatSeq(d),
                             outc |-> o, eouts |-> eo, coe |-> coe,
                             enabled |-> en, seeded |-> sd, ingraph |-> ig, target |-> ig, ignore |-> ign])
    /\ UNCHANGED <<phase, ss, mode, arch, subs, nextSub, cur, inst, missing, excs, att, calls>>

ListFed(k, d) == k = "parser" /\ MayBeList(d[1].ds[1])

Define ==
    /\ phase = "define" /\ Len(prog) < N
    /\ \E k \in KindSet, o \in OutSet :
         /\ o \in OutsOf(k)
         /\ \E d \in DeclsFor(k) :
            \E en \in (IF AllowDisabled THEN BOOLEAN ELSE {TRUE}),
               sd \in (IF AllowSeeded THEN BOOLEAN ELSE {FALSE}),
               ig \in (IF AllowOutOfGraph THEN BOOLEAN ELSE {TRUE}),
               coe \in (IF ListFed(k, d) THEN BOOLEAN ELSE {TRUE}),
               ign \in (IF AllowIgnore THEN {{}} \cup {{x} : x \in Seeded} ELSE {{}}) :
            \E eo \in (IF ListFed(k, d) THEN [1..ListLen -> ElemOutSet] ELSE {<<>>}) :
               DefineWith(k, o, d, en, sd, ig, coe, ign, eo)

-----------------------------------------------------------------------------
(* Phase 2: evaluation                                                     *)
Adj(a, b) == a \in DepSet(b) \/ b \in DepSet(a)
RECURSIVE Reach(_, _)
Reach(S, G) == LET S2 == S \cup {x \in G : \E y \in S : Adj(x, y)} IN IF S2 = S THEN S ELSE Reach(S2, G)
ConnComps(G) == {Reach({x}, G) : x \in G}               \* dr.get_subgraphs

(* run_order also lists dependencies that are not keys of the graph        *)
(* (toposort's "extra items"); they are iterated over but never processed. *)
Attemptable == Graph \cup UNION {DepSet(c) : c \in Graph}
Extras      == Attemptable \ Graph

PermSeqs(S) == {s \in [1..Cardinality(S) -> S] : \A i, j \in DOMAIN s : s[i] = s[j] => i = j}

StartRun ==
    /\ phase = "define" /\ Len(prog) = N
    /\ phase' = "run"
    /\ ss' \in SSSet
    /\ mode' \in ModeSet
    /\ arch' \in (IF mode' = "single" THEN ArchSet ELSE {FALSE})
    /\ IF mode' = "single"
         THEN subs' = <<IF arch' THEN Pruned ELSE Flagged>>
         ELSE subs' \in PermSeqs(ConnComps(Flagged))
    /\ nextSub' = 1
    /\ cur' = [w \in 1..(IF mode' = "pool" THEN Workers ELSE 1) |-> 0]
    /\ inst' = [c \in Comp |-> IF prog[c].seeded THEN SeedVal(c) ELSE Absent]
    /\ missing' = [c \in Comp |-> NoMiss]
    /\ excs' = {} /\ att' = <<>> /\ calls' = <<>>
    /\ UNCHANGED prog

Attempted == {att[i].c : i \in DOMAIN att}
(* A sub-graph's run also iterates over the extras its members depend on.  *)
SubAll(i) == subs[i] \cup UNION {DepSet(c) \ Graph : c \in subs[i]}
AttemptedIn(i) == {att[j].c : j \in {x \in DOMAIN att : att[x].s = i}}

Take(w) ==
    /\ phase = "run"
    /\ nextSub <= Len(subs)
    /\ IF cur[w] = 0 THEN TRUE ELSE SubAll(cur[w]) \subseteq AttemptedIn(cur[w])
    /\ cur' = [cur EXCEPT ![w] = nextSub]
    /\ nextSub' = nextSub + 1
    /\ UNCHANGED <<phase, prog, ss, mode, arch, subs, inst, missing, excs, att, calls>>

---------------------------------------------------------------------------
(* Effect of one loop iteration on component c, as a function of the       *)
(* broker contents I.                                                      *)
Has(I, c)    == I[c].k # "absent"
MissingOf(I, c) ==
    [mr |-> SelectSeq(Requires(c), LAMBDA r : ~Has(I, r)),
     mg |-> SelectSeq(Groups(c), LAMBDA g : \A i \in DOMAIN g : ~Has(I, g[i]))]
Ready(I, c)  == LET m == MissingOf(I, c) IN m.mr = <<>> /\ m.mg = <<>>
Args(I, c)   == [i \in DOMAIN Flat(c) |-> IF Has(I, Flat(c)[i]) THEN I[Flat(c)[i]] ELSE NoneV]
Processed(I, c) == ~Has(I, c) /\ c \in Graph /\ prog[c].enabled      \* dr.py:1067-1069
(* id 0 in an ignore set (recorded executions only): the component was told  *)
(* to keep quiet under a marker that every broker of the execution holds (an *)
(* execution context for which a later implementation of its spec exists)    *)
IgnoredNow(I, c) == \E i \in prog[c].ignore : (i = 0 \/ Has(I, i))   \* dr.py:793

Exc(u, b, k, e) == [under |-> u, by |-> b, kind |-> k, el |-> e, tb |-> TRUE]
SkipRec(c)      == IF ss THEN {Exc(c, c, "skip", 0)} ELSE {}

(* Where the code files a failure of kind f raised by the body of c        *)
(* (plugins.py:60-70, 93-122, 148-165; dr.py:1083-1094).                   *)
(* datasource.invoke files content / command / timeout errors under the     *)
(* registry points the datasource implements; a datasource that implements  *)
(* none files them under itself (before the fix of defect D14 they were     *)
(* filed nowhere: TLC reported Accounted violated on this very model).      *)
FileDs(c) == IF RegPts(c) = {} THEN {c} ELSE RegPts(c)
ImplExcs(c, f) ==
    CASE f = "skip" -> SkipRec(c)
      [] f \in {"content", "cmd"} ->
           (IF Kind(c) = "datasource"
              THEN {Exc(p, c, f, 0) : p \in FileDs(c)}
              ELSE {Exc(c, c, f, 0)}) \cup SkipRec(c)
      [] f = "timeout" /\ Kind(c) = "datasource" ->
           {Exc(p, c, f, 0) : p \in FileDs(c)} \cup SkipRec(c)
      [] OTHER -> {Exc(p, c, f, 0) : p \in {c} \cup RegPts(c)}

Result(v, m, cl, ex) == [v |-> v, m |-> m, calls |-> cl, excs |-> ex]

(* Broker.fire_observers (dr.py:896-907), called in the finally block of the *)
(* loop for every registered component, processed or not: an observer        *)
(* registered for a component type fires exactly once per attempt of a        *)
(* component of that type or of a subtype, after the attempt's state change   *)
(* (it sees the value, if there is one).  A registry point is a datasource.   *)
ObsTypes == {"any", "plugin", "datasource", "parser", "rule", "combiner"}   \* "plugin" = PluginType, base of every kind
TypeName(c) == IF Kind(c) = "point" THEN "datasource" ELSE Kind(c)
ObserversFor(c) == {"any", "plugin"} \cup ({TypeName(c)} \cap ObsTypes)

(* parser fed a list: one call per element (plugins.py:167-206)            *)
RECURSIVE PLoop(_, _, _, _)
PLoop(c, els, j, acc) ==
    IF j > Len(els) \/ acc.broke THEN acc
    ELSE LET o    == prog[c].eouts[j]
             fail == o \in {"content", "cmd", "timeout", "crash"}
         IN PLoop(c, els, j + 1,
              [res   |-> IF o = "val" THEN Append(acc.res, j) ELSE acc.res,
               excs  |-> acc.excs \cup (IF fail THEN {Exc(c, c, o, j)}
                                        ELSE IF o = "skip" /\ ss THEN {Exc(c, c, "skip", j)} ELSE {}),
               calls |-> Append(acc.calls, [c |-> c, args |-> <<els[j]>>, el |-> j]),
               broke |-> fail /\ ~prog[c].coe])

Invoke(I, c) ==
    LET k == Kind(c) IN
    IF k = "point" THEN
        \* RegistryPoint.__call__: the last declared dependency that has a value
        LET g == Groups(c)[1]
            j == CHOOSE x \in DOMAIN g : Has(I, g[x]) /\ \A y \in DOMAIN g : Has(I, g[y]) => y <= x
        IN Result(I[g[j]], NoMiss, <<>>, {})
    ELSE IF k = "parser" /\ IsList(I[Requires(c)[1]]) THEN
        LET src == I[Requires(c)[1]]
            els == [j \in DOMAIN src.xs |-> ElemOf(src, j)]
            r   == PLoop(c, els, 1, [res |-> <<>>, excs |-> {}, calls |-> <<>>, broke |-> FALSE])
        IN IF r.broke \/ r.res = <<>>
             THEN Result(Absent, NoMiss, r.calls, r.excs \cup SkipRec(c))
             ELSE Result(PListV(c, r.res), NoMiss, r.calls, r.excs)
    ELSE
        LET a  == IF k = "parser" THEN <<I[Requires(c)[1]]>> ELSE Args(I, c)
            cl == <<[c |-> c, args |-> a, el |-> 0]>>
            o  == prog[c].outc
        IN CASE o = "val"  -> Result(IF k = "rule" THEN RespV(c) ELSE PlainV(c), NoMiss, cl, {})
             [] o = "none" -> Result(IF k = "rule" THEN NoneResp ELSE NoneV, NoMiss, cl, {})
             [] o = "falsy" -> Result(FalsyV(c), NoMiss, cl, {})
             [] o = "list" -> Result(ListV(c), NoMiss, cl, {})
             [] OTHER      -> Result(Absent, NoMiss, cl, ImplExcs(c, o))

Eff(I, c) ==
    IF ~Processed(I, c) THEN Result(I[c], NoMiss, <<>>, {})
    ELSE IF IgnoredNow(I, c) THEN Result(Absent, NoMiss, <<>>, SkipRec(c))
    ELSE LET m == MissingOf(I, c) IN
         IF m.mr # <<>> \/ m.mg # <<>>
           THEN IF Kind(c) = "rule"
                  THEN Result(SkipResp(c, m), NoMiss, <<>>, {})            \* plugins.py:328-330
                  ELSE Result(Absent, [set |-> TRUE, mr |-> m.mr, mg |-> m.mg], <<>>, {})
           ELSE Invoke(I, c)

Attempt(w, c) ==
    /\ phase = "run"
    /\ cur[w] # 0
    /\ c \in SubAll(cur[w])
    /\ c \notin AttemptedIn(cur[w])
    /\ c \in Graph => \A d \in DepSet(c) \cap Graph : d \in Attempted
    /\ LET e == Eff(inst, c) IN
         /\ inst'    = [inst EXCEPT ![c] = e.v]
         /\ missing' = [missing EXCEPT ![c] = IF e.m.set THEN e.m ELSE @]
         /\ calls'   = calls \o e.calls
         /\ excs'    = excs \cup e.excs
    /\ att' = Append(att, [w |-> w, s |-> cur[w], c |-> c])
    /\ UNCHANGED <<phase, prog, ss, mode, arch, subs, nextSub, cur>>

AllDone == nextSub > Len(subs) /\ \A i \in DOMAIN subs : SubAll(i) \subseteq AttemptedIn(i)

Finish ==
    /\ phase = "run" /\ AllDone
    /\ phase' = "done"
    /\ UNCHANGED <<prog, ss, mode, arch, subs, nextSub, cur, inst, missing, excs, att, calls>>

Next == Define \/ StartRun \/ (\E w \in DOMAIN cur : Take(w) \/ \E c \in Comp : Attempt(w, c)) \/ Finish

Init ==
    /\ phase = "define" /\ prog = <<>> /\ ss = FALSE /\ mode = "single" /\ arch = FALSE
    /\ subs = <<>> /\ nextSub = 1 /\ cur = <<>>
    /\ inst = <<>> /\ missing = <<>> /\ excs = {} /\ att = <<>> /\ calls = <<>>

Spec == Init /\ [][Next]_vars

-----------------------------------------------------------------------------
(* Schedule-free denotation: evaluate 1, 2, ..., N in registration order.   *)
RECURSIVE DenI(_), DenM(_), DenE(_)
DenI(n) == IF n = 0 THEN [c \in Comp |-> IF prog[c].seeded THEN SeedVal(c) ELSE Absent]
           ELSE LET I == DenI(n - 1) IN
                IF n \in Attemptable THEN [I EXCEPT ![n] = Eff(I, n).v] ELSE I
DenM(n) == IF n = 0 THEN [c \in Comp |-> NoMiss]
           ELSE LET e == Eff(DenI(n - 1), n) IN
                IF n \in Attemptable /\ e.m.set THEN [DenM(n - 1) EXCEPT ![n] = e.m] ELSE DenM(n - 1)
DenE(n) == IF n = 0 THEN {}
           ELSE IF n \in Attemptable THEN DenE(n - 1) \cup Eff(DenI(n - 1), n).excs ELSE DenE(n - 1)

Running == phase \in {"run", "done"}
CallsOf(c) == {i \in DOMAIN calls : calls[i].c = c}

-----------------------------------------------------------------------------
(* C01 *)
AtMostOnce ==
    \* (a dependency outside the evaluated graph is iterated over, never processed,
    \*  by every sub-graph run that mentions it)
    Running => /\ \A i, j \in DOMAIN att :
                     (att[i].c = att[j].c /\ (att[i].c \in Graph \/ att[i].s = att[j].s)) => i = j
               /\ \A i, j \in DOMAIN calls : (calls[i].c = calls[j].c /\ calls[i].el = calls[j].el) => i = j
DepsBefore ==
    Running => \A i \in DOMAIN att : att[i].c \in Graph =>
                  \A d \in DepSet(att[i].c) \cap Graph : \E j \in 1..(i - 1) : att[j].c = d
SeedsPreserved ==
    Running => \A c \in Seeded : inst[c] = SeedVal(c) /\ CallsOf(c) = {}
OnlyGraphRuns ==
    Running => \A c \in Comp : CallsOf(c) # {} => c \in Graph /\ prog[c].enabled

(* C02: checked when everything was attempted, against the final broker:   *)
(* dependencies are final by the time a component is attempted.            *)
Fired(c) == CallsOf(c) # {}
ShouldFire(c) == /\ c \in Graph /\ prog[c].enabled /\ c \notin Seeded
                 /\ ~IgnoredNow(inst, c) /\ Ready(inst, c) /\ Kind(c) # "point"
FiresIff ==
    phase = "done" => \A c \in Comp : Fired(c) <=> ShouldFire(c)
MissingExact ==
    phase = "done" => \A c \in Comp :
        LET m == MissingOf(inst, c)
            unmet == m.mr # <<>> \/ m.mg # <<>>
            live == c \in Graph /\ prog[c].enabled /\ c \notin Seeded /\ ~IgnoredNow(inst, c)
        IN IF live /\ unmet
             THEN IF Kind(c) = "rule" THEN inst[c] = SkipResp(c, m) /\ ~missing[c].set
                  ELSE missing[c] = [set |-> TRUE, mr |-> m.mr, mg |-> m.mg] /\ ~Has(inst, c)
             ELSE ~missing[c].set /\ inst[c].k # "skipresp"
ArgBinding ==
    phase = "done" => \A i \in DOMAIN calls :
        LET c == calls[i].c IN
        (Kind(c) # "parser") => calls[i].args = Args(inst, c)
DisabledNeverFires ==
    Running => \A c \in Comp : ~prog[c].enabled => (~Fired(c) /\ (c \notin Seeded => ~Has(inst, c)))

(* C03 *)
NothingElsewhere ==
    \A e \in excs : /\ e.under \in MayFileUnder(e.by)
                    /\ e.kind = "skip" => (ss /\ e.under = e.by)
RaisedBy(c) ==  \* hard failures the bodies of c raised, from the call log
    {<<calls[i].el, IF calls[i].el = 0 THEN prog[c].outc ELSE prog[c].eouts[calls[i].el]>> : i \in CallsOf(c)}
    \* (outcomes "val", "none", "falsy", "list" are in this set too; only the failure kinds are looked at)
Accounted ==
    Running => \A c \in Comp : \A r \in RaisedBy(c) :
        /\ r[2] \in HardFail => \E e \in excs : e.by = c /\ e.kind = r[2] /\ e.el = r[1] /\ e.tb
        /\ (r[2] = "skip" /\ ss) => \E e \in excs : e.by = c /\ e.kind = "skip" /\ e.el = r[1] /\ e.under = c
NoPhantomExc ==
    \A e \in excs : e.kind # "skip" => <<e.el, e.kind>> \in RaisedBy(e.by)
(* Isolation: whatever can be computed without the failed components has   *)
(* the value it has in the schedule-free denotation.                       *)
Isolation  == phase = "done" => inst = DenI(N)

(* C04 *)
Confluence == phase = "done" => /\ inst = DenI(N) /\ missing = DenM(N) /\ excs = DenE(N)
PartitionExact ==
    Running => /\ UNION {subs[i] : i \in DOMAIN subs} = Graph
               /\ \A i, j \in DOMAIN subs : i # j => subs[i] \cap subs[j] = {}
               /\ mode # "single" => \A i \in DOMAIN subs : \A c \in subs[i] : DepSet(c) \cap Graph \subseteq subs[i]
OneWorkerPerSub ==
    Running => \A i, j \in DOMAIN att : att[i].s = att[j].s => att[i].w = att[j].w

=============================================================================
