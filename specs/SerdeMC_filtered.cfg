SPECIFICATION Spec
CONSTANTS
  N = 1
  Kinds = {"command", "ccmd", "cfile", "datasource"}
  Atoms = {"p"}
  MinLines = 1
  MaxLines = 1
  MaxElems = 3
  SaveAsSet = {"none"}
  Modes = {}
  MayFail = FALSE
  OutcomeSet = {}
  BackedSet = {}
  FilterSet = {TRUE}
  Budget = 2
  BudgetMode = "per-load"
  RecordMode = "component"
  PoolSet = {FALSE}
  AssembleMode = "index"
  LateSet = {FALSE}
  LookupMode = "live"
  MaxFaults = 0
INVARIANT RoundTrip
INVARIANT ErrorsPersisted
INVARIANT FaultIsolation
CONSTRAINT Emit
CHECK_DEADLOCK FALSE
