\* abstract requirement vs implementation-shaped table + cache; CacheRule "all": LookupIsUnion holds
SPECIFICATION SpecHist
CONSTANTS
  NP = 2
  BudSet = {1, 2}
  Depth = 5
  CacheRule = "all"
  AddSet = {"I1", "I2", "P", "I3", "P2", "Q1", "Q2", "K"}
  GetSet = {"I1", "I2", "P", "I3"}
  PatSets = {{1}, {2}, {1, 2}, {0}}
  MaxLines = 0
  CBudSet = {0}
  PathSet = {"archive"}
INVARIANT LookupIsUnionInv
INVARIANT TableIsUnion
PROPERTY LookupIsUnion
CHECK_DEADLOCK FALSE
