\* requirement (eff) vs implementation-shaped table + cache with whole-cache invalidation: LookupIsUnion holds.
\* (This is the quick-tier configuration; harness/p_filters.py generates the configurations it runs.)
SPECIFICATION SpecHist
CONSTANTS
  NP = 2
  BudSet = {1}
  Depth = 5
  CacheRule = "all"
  AddSet = {"I1", "I2", "P", "I3", "P2", "Q1", "Q2", "K"}
  GetSet = {"I1", "I2", "P", "D1", "D0"}
  PatSets = {{1}, {2}}
  MaxLines = 0
  CBudSet = {0}
  PathSet = {"archive"}
INVARIANT LookupIsUnionInv
INVARIANT TableIsUnion
INVARIANT LookupBudgetsInv
PROPERTY LookupIsUnion
VIEW HistView
CHECK_DEADLOCK FALSE
