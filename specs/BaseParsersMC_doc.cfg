SPECIFICATION Spec
CONSTANTS
  Fam = "doc"
  N = 3
  Deep = FALSE
INVARIANT Totality
INVARIANT SearchExact
INVARIANT SearchMonotone
INVARIANT AfterExact
INVARIANT YearNear
CONSTRAINT Emit
CHECK_DEADLOCK FALSE
