---------------------------- MODULE CollectRunMC ----------------------------
(* Model-checking wrapper of CollectRun: emits one CASE record per manifest  *)
(* (+ environment + prior dr.ENABLED state) of the bound for the replay      *)
(* driver (harness/drive_collectrun.py), and - once - the universe: names,   *)
(* prefixes, the model's "starts with" table, items, deny entries and the    *)
(* sub-graph partition, which the driver compares with the real package (R4) *)
(* and from which it generates the files of the collected root.              *)
EXTENDS CollectRun, Json

Emit ==
    s.pc = "load" => PrintT(<<"CASE", ToJson([t |-> "case", mf |-> s.mf, env |-> s.env, pre |-> s.pre])>>)

Universe ==
    [t |-> "universe",
     names    |-> [c \in Comp |-> NameOf(c)],
     simple   |-> [c \in Comp |-> SimpleName(c)],
     prefixes |-> [p \in AllPrefixIds |-> PrefixOf(p)],
     matches  |-> [p \in AllPrefixIds |-> {c \in Comp : Matches(p, c)}],
     subs     |-> [c \in Comp |-> SubOf[c]],
     canon    |-> Canon,
     items    |-> [i \in Items |-> [file |-> ItemFile(i), cmd |-> ItemCmd(i), path |-> ItemPath(i), lines |-> ItemLines(i)]],
     implitems |-> [c \in Impls |-> ItemsOfImpl(c)],
     fdeny    |-> [e \in AllFileDeny |-> [text |-> FileTextOf(e), sym |-> SymComp(e)]],
     cdeny    |-> [e \in AllCmdDeny |-> [words |-> CmdWordsOf(e), sym |-> SymComp(e)]],
     kdeny    |-> [k \in AllCompDeny |-> [name |-> CompTextOf(k), comp |-> CompOfDeny(k)]],
     pre      |-> [p \in PreAll |-> PreOf(p)]]

ASSUME PrintT(<<"CASE", ToJson(Universe)>>)
=============================================================================
