----------------------------- MODULE JsonDocMC -----------------------------
(***************************************************************************)
(* Enumerates the JSON values of nesting depth <= Depth over a selectable   *)
(* set of atoms (arrays of one or two elements, objects of one or two       *)
(* members), checks well-formedness of the canonical form and emits one     *)
(* CASE per value.  State: v, the value; tree "v is the first element /     *)
(* member of its successors".                                               *)
(***************************************************************************)
EXTENDS JsonDoc, TLC, Json, FiniteSets

CONSTANTS AtomIds, Depth

AtomTable == <<JInt("0"), JInt("7"), JStr("a"), JFalse, JNull, JArr(<<>>), JObj(<<>>, <<>>), JDec("1.5"),       \* 1-8
               JInt("-3"), JInt("120"), JDec("0.0"), JDec("-0.25"), JStr("x y"), JStr("q\"t"), JStr("[1, {}]"),   \* 9-15
               JStr("0"), JTrue, JStr("It's"), JInt("12345678901234567890"), JStr("null"),                   \* 16-20
               \* integers that a double cannot hold (numerals are texts: TLC integers are 32 bit)
               JInt("9007199254740993"), JInt("-9007199254740993"), JInt("18446744073709551617")>>        \* 21-23
K1 == "k"
K2 == "m n"
A0 == {AtomTable[i] : i \in AtomIds}
Grow(S) == S \cup {JArr(<<y>>) : y \in S} \cup {JArr(<<y, z>>) : y \in S, z \in S}
             \cup {JObj(<<K1>>, <<y>>) : y \in S} \cup {JObj(<<K1, K2>>, <<y, z>>) : y \in S, z \in S}
Right == IF Depth <= 1 THEN A0 ELSE Grow(A0)

RECURSIVE Dp(_), DpMax(_, _)
DpMax(ts, i) == IF i > Len(ts) THEN 0 ELSE LET d == Dp(ts[i]) m == DpMax(ts, i + 1) IN IF d > m THEN d ELSE m
Dp(v) == IF v.ts = <<>> THEN 0 ELSE 1 + DpMax(v.ts, 1)

Succ(v) == {JArr(<<v>>), JObj(<<K1>>, <<v>>), JObj(<<K2>>, <<v>>)}
             \cup {JArr(<<v, y>>) : y \in Right} \cup {JObj(<<K1, K2>>, <<v, y>>) : y \in Right}

ASSUME FlatInjectiveOn(Grow(A0))

VARIABLE v
Init == v \in A0
Next == Depth >= 1 /\ Dp(v) < Depth /\ v' \in Succ(v)
Spec == Init /\ [][Next]_v

ValueLaws == WFJ(v) /\ FlatWellFormed(v) /\ (Flat(v) = FlatD(v) \/ \E i \in DOMAIN Flat(v) : Flat(v)[i] = "[")

Emit == PrintT(<<"CASE", ToJson([v |-> v, flat |-> Flat(v)])>>)

=============================================================================
