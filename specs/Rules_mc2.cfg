SPECIFICATION Spec
CONSTANTS
  R = 2
  RetSet = {"fail", "pass", "info", "fingerprint", "metadata", "metadata_key", "none", "nonresp", "raises", "dskip", "key_empty", "key_none", "key_nonstr", "kw_type", "kw_keyname", "meta_kw_type", "over_fail", "over_pass", "over_info", "over_fingerprint", "over_metadata", "at_fail", "at_pass", "over_metadata_key"}
  DepSet = {"met", "missing", "missing-group"}
  EnSet = {TRUE, FALSE}
  NKeys = 2
  NMods = 1
INVARIANT ExactlyOneOutcome
INVARIANT AtMostOneAlways
INVARIANT RightHeading
INVARIANT Rejected
INVARIANT StubOnOverflow
INVARIANT SkipNamesMissing
INVARIANT ShownSubset
CHECK_DEADLOCK FALSE
