SPECIFICATION Spec
CONSTANTS
  Fam = "prog"
  MinN = 4
  N = 4
  KindSet = {"comp"}
  TypSet = {"base"}
  GrpSet = {1}
  LabelSet = {"g1", "none", "req"}
  PrioSet = {1}
  MaxAdds = 1
  AskSet = {"basic", "sub", "topo", "walk"}
  KeyMode = "any"
  WalkMech = "bfs"
  Prefix <- NoPrefix
INVARIANT TypeOK
INVARIANT RegistryInverse
INVARIANT RegistryIsDeclared
INVARIANT ClosureLaws
INVARIANT PointLaws
INVARIANT GrowLaws
INVARIANT PeelLaws
INVARIANT BfsLaws
INVARIANT HelperLaws
INVARIANT SpecLaws
INVARIANT CodeFormDeviatesOnlyInClasses
CONSTRAINT Emit
CHECK_DEADLOCK FALSE
