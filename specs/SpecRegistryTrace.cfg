SPECIFICATION TraceSpec
CONSTANTS
  NCtx = 6
  MaxImpl = 8
  MaxAny = 3
  KindSet = {"req", "any", "via", "viaimpl"}
  AllowSeed = TRUE
  MaxLvl = 3
  MidEval = TRUE
POSTCONDITION Post
CHECK_DEADLOCK FALSE
