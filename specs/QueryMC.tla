------------------------------ MODULE QueryMC ------------------------------
(***************************************************************************)
(* Model-checking wrapper for Query: the bounded input spaces.  A state is *)
(* a (forest, query) pair (parts "struct", "attr") or a boolean term (part *)
(* "truth"); TLC checks the laws of the reference on every state and emits *)
(* one CASE record per state for the driver.                               *)
(*                                                                         *)
(* "struct": every forest of at most NMax nodes (documents included; up to *)
(*    3 levels, at most 3 children, names a/b, several documents allowed)  *)
(*    x every query of 1-3 levels over {"a", "b", None} x deep x roots.    *)
(* "attr": every forest of at most ANodes nodes drawn from 6 node kinds    *)
(*    (names a/A/b, attribute tuples over x X y 1 2) x queries whose       *)
(*    levels carry attribute predicates (literals, boolean terms, several  *)
(*    alternatives, all_ / ~any_ / ~all_, name predicates, a raising       *)
(*    predicate) x deep.                                                   *)
(* "truth": every boolean term of depth <= 1 over all 43 atoms and of      *)
(*    depth <= 2 over a reduced atom set; the truth table over 10 values.  *)
(* "reuse": predicate objects that serve as operands of a further          *)
(*    combination and are evaluated afterwards (see ReuseSteps).           *)
(* "fold": case-insensitive predicates on text with non-ASCII and          *)
(*    special-casing characters (truth tables and one-level queries).      *)
(***************************************************************************)
EXTENDS Query, Json

CONSTANTS Part, NMax, ANodes, ALevels, Deep2Atoms,
          EmitEvery, Salt        \* emission sampling: one state out of EmitEvery is emitted (all are checked);
                                 \* which ones is a deterministic function of the state and of Salt (from VERIF_SEED)

cx == 120  cX == 88  cy == 121  ca == 97  cA == 65  cb == 98
Tok(op, f, ci, arg) == [op |-> op, f |-> f, ci |-> ci, arg |-> arg]
Atom(f, ci, arg) == << Tok("atom", f, ci, arg) >>
NoTerm == <<>>
Level(nk, nlit, nterm, am, aq) == [nk |-> nk, nlit |-> nlit, nterm |-> nterm, am |-> am, aq |-> aq]
Lit(nm)  == Level("lit", nm, NoTerm, "none", <<>>)
AnyQ     == Level("any", <<>>, NoTerm, "none", <<>>)
ELit(v)  == [k |-> "lit", lit |-> v, term |-> NoTerm]
ETerm(t) == [k |-> "term", lit |-> IV(0), term |-> t]
EFn(t)   == [k |-> "fn", lit |-> IV(0), term |-> t]

(* ---- forests ---- *)
MaxDepth == 3
DepthSeqs(n, multi) ==
    {s \in [1..n -> 0..MaxDepth] :
        /\ s[1] = 0
        /\ \A i \in 2..n : s[i] <= s[i - 1] + 1 /\ (s[i] = 0 => multi)}
Mk(s, nm, at) == [i \in DOMAIN s |-> [d |-> s[i], n |-> IF s[i] = 0 THEN <<>> ELSE nm[i], a |-> IF s[i] = 0 THEN <<>> ELSE at[i]]]
FewKids(F) == \A i \in DOMAIN F : Cardinality(Children(F, i)) <= 3

StructForests ==
    {F \in UNION {{Mk(s, nm, [i \in 1..n |-> <<>>]) : s \in DepthSeqs(n, TRUE), nm \in [1..n -> {<<ca>>, <<cb>>}]}
                  : n \in 2..NMax} :
        FewKids(F) /\ \A i \in DOMAIN F : (F[i].d = 0 => F[i].n = <<>>)}

Kinds == { [n |-> <<ca>>, a |-> <<>>], [n |-> <<ca>>, a |-> <<SV(<<cx>>)>>], [n |-> <<ca>>, a |-> <<IV(1)>>],
           [n |-> <<cA>>, a |-> <<SV(<<cX>>), IV(2)>>], [n |-> <<ca>>, a |-> <<SV(<<cy>>), SV(<<cx>>)>>],
           [n |-> <<cb>>, a |-> <<IV(2), IV(1)>>] }
AttrForests ==
    UNION {{[i \in 1..n |-> IF i = 1 THEN [d |-> 0, n |-> <<>>, a |-> <<>>] ELSE [d |-> s[i], n |-> k[i].n, a |-> k[i].a]]
             : s \in DepthSeqs(n, FALSE), k \in [1..n -> Kinds]} : n \in 2..(ANodes + 1)}

Docs(F) == SelectSeq([i \in DOMAIN F |-> i], LAMBDA i : F[i].d = 0)

(* ---- queries ---- *)
RECURSIVE SeqsUpTo(_, _)
SeqsUpTo(S, n) == IF n = 0 THEN {<<>>} ELSE SeqsUpTo(S, n - 1) \cup {Append(s, x) : s \in {y \in SeqsUpTo(S, n - 1) : Len(y) = n - 1}, x \in S}
StructLevels == {Lit(<<ca>>), Lit(<<cb>>), AnyQ}
StructQueries == {[qs |-> qs, deep |-> d, roots |-> r] : qs \in SeqsUpTo(StructLevels, 3) \ {<<>>}, d \in BOOLEAN, r \in BOOLEAN}

X == SV(<<cx>>)   BX == SV(<<cX>>)
AttrAtoms == { Atom("eq", FALSE, X), Atom("eq", TRUE, X), Atom("eq", TRUE, BX), Atom("lt", FALSE, IV(2)),
               Atom("ge", FALSE, X), Atom("contains", FALSE, X), Atom("startswith", TRUE, BX), Atom("boom", FALSE, IV(0)) }
AttrTerms == AttrAtoms \cup {Not(t) : t \in AttrAtoms}
             \cup { Or(Atom("eq", TRUE, X), Atom("lt", FALSE, IV(2))),
                    And(Not(Atom("eq", TRUE, X)), Not(Atom("boom", FALSE, IV(0)))),
                    And(Atom("ge", FALSE, IV(1)), Not(Atom("eq", FALSE, IV(1)))),
                    Or(Atom("boom", FALSE, IV(0)), Atom("eq", FALSE, IV(2))) }
AllTerms == { Atom("lt", FALSE, IV(2)), Atom("eq", TRUE, X), Not(Atom("eq", TRUE, X)), Not(Atom("lt", FALSE, IV(2))) }
AttrParts ==
    {<<"any", <<ELit(X)>>>>, <<"any", <<ELit(IV(1))>>>>, <<"any", <<ELit(X), ELit(IV(2))>>>>,
     <<"any", <<ETerm(Atom("eq", TRUE, X)), ELit(IV(1))>>>>, <<"any", <<EFn(Atom("lt", FALSE, IV(2)))>>>>,
     \* several Boolean alternatives, one of which raises on an attribute the other one accepts
     <<"any", <<ETerm(Atom("startswith", FALSE, X)), ETerm(Atom("lt", FALSE, IV(2)))>>>>,
     <<"any", <<ETerm(Atom("lt", FALSE, IV(2))), ETerm(Atom("eq", TRUE, BX))>>>>,
     <<"any", <<ETerm(Atom("boom", FALSE, IV(0))), ETerm(Atom("ge", FALSE, IV(1))), ETerm(Atom("contains", FALSE, X))>>>>,
     <<"any", <<EFn(Atom("boom", FALSE, IV(0)))>>>>}
    \cup {<<"any", <<ETerm(t)>>>> : t \in AttrTerms}
    \cup {<<"all", <<ETerm(t)>>>> : t \in AllTerms} \cup {<<"all", <<ELit(X)>>>>}
    \cup {<<"nany", <<ETerm(t)>>>> : t \in {Atom("eq", TRUE, X), Atom("lt", FALSE, IV(2)), Not(Atom("eq", TRUE, X))}}
    \cup {<<"nall", <<ETerm(t)>>>> : t \in {Atom("eq", TRUE, X), Atom("lt", FALSE, IV(2))}}
NameTerms == { Atom("eq", TRUE, SV(<<cA>>)), Atom("startswith", FALSE, SV(<<ca>>)), Not(Atom("eq", FALSE, SV(<<ca>>))),
               Atom("lt", FALSE, IV(1)), Not(Atom("lt", FALSE, IV(1))), Atom("boom", FALSE, IV(0)),
               Or(Atom("eq", FALSE, SV(<<cb>>)), Atom("eq", TRUE, SV(<<ca>>))) }
AttrLevels ==
    {Level(nk[1], nk[2], NoTerm, ap[1], ap[2]) : nk \in {<<"any", <<>>>>, <<"lit", <<ca>>>>}, ap \in AttrParts}
    \cup {Level("term", <<>>, t, "none", <<>>) : t \in NameTerms}
    \cup {Level("fn", <<>>, t, "none", <<>>) : t \in {Atom("startswith", FALSE, SV(<<ca>>)), Atom("boom", FALSE, IV(0))}}
    \cup {Level("term", <<>>, Atom("eq", TRUE, SV(<<cA>>)), "any", <<ETerm(Not(Atom("eq", TRUE, X)))>>)}
SimpleLevels == {Lit(<<ca>>), AnyQ}
AttrQueries ==
    {[qs |-> qs, deep |-> d, roots |-> FALSE] :
        qs \in {<<l>> : l \in AttrLevels}
               \cup (IF ALevels >= 2 THEN {<<l, s>> : l \in AttrLevels, s \in SimpleLevels} \cup {<<s, l>> : l \in AttrLevels, s \in SimpleLevels}
                     ELSE {}),
        d \in BOOLEAN}

(* ---- boolean terms for the truth tables ---- *)
Args   == {X, BX, SV(<<cy>>), IV(1), IV(2)}
SArgs  == {X, BX, SV(<<>>)}
Atoms  == {Atom(f, FALSE, a) : f \in {"eq", "lt", "le", "gt", "ge"}, a \in Args}
          \cup {Atom(f, FALSE, a) : f \in {"contains", "startswith", "endswith"}, a \in SArgs}
          \cup {Atom(f, TRUE, a) : f \in Caseless, a \in {X, BX}}
          \cup {Atom("boom", FALSE, IV(0))}
Grow(T) == T \cup {Not(t) : t \in T} \cup {And(t, u) : t, u \in T} \cup {Or(t, u) : t, u \in T}
Small  == IF Deep2Atoms = 3 THEN {Atom("eq", TRUE, X), Atom("lt", FALSE, IV(2)), Atom("boom", FALSE, IV(0))}
          ELSE {Atom("eq", FALSE, X), Atom("eq", TRUE, BX), Atom("lt", FALSE, IV(2)), Atom("contains", FALSE, X),
                Atom("boom", FALSE, IV(0)), Atom("startswith", TRUE, X)}
Terms  == Grow(Atoms) \cup Grow(Grow(Small))        \* enumerated in two steps: a base term, then what is built on it
Bases  == Atoms \cup Grow(Small)
Pairs(b, U) == {And(b, u) : u \in U} \cup {Or(b, u) : u \in U}
Succ(b) == {b, Not(b)} \cup (IF b \in Atoms THEN Pairs(b, Atoms) ELSE {}) \cup (IF b \in Grow(Small) THEN Pairs(b, Grow(Small)) ELSE {})
Values == << X, BX, SV(<<cy>>), SV(<<cx, cy>>), SV(<<cy, cX>>), IV(1), IV(2), SV(<<ca>>), SV(<<cA>>), SV(<<>>) >>

(* ---- part "reuse": predicate OBJECTS that serve as operands of further combinations ----       *)
(* a base object (atom, negation, conjunction, disjunction) x one further combination (~base, base & u, *)
(* u & base, base | u, u | base); the driver evaluates the base object before and AFTER the combination *)
(* was built from it, stand-alone and as the name / attribute predicate of a query                      *)
RAtoms == { Atom("eq", FALSE, X), Atom("eq", TRUE, BX), Atom("lt", FALSE, IV(2)), Atom("startswith", FALSE, SV(<<ca>>)),
            Atom("contains", TRUE, SV(<<cy>>)), Atom("boom", FALSE, IV(0)) }
ReuseBases  == Grow(RAtoms)
ReuseOthers == RAtoms \cup {Not(a) : a \in RAtoms}
ReuseSteps  == {[op |-> "not", side |-> "left", other |-> Atom("eq", FALSE, X)]}
               \cup {[op |-> o, side |-> sd, other |-> u] : o \in {"and", "or"}, sd \in {"left", "right"}, u \in ReuseOthers}
ReuseForest == << [d |-> 0, n |-> <<>>, a |-> <<>>],
                  [d |-> 1, n |-> <<ca>>, a |-> <<SV(<<cx>>)>>], [d |-> 2, n |-> <<cA>>, a |-> <<SV(<<cX>>), IV(2)>>],
                  [d |-> 2, n |-> <<cb>>, a |-> <<IV(1)>>], [d |-> 1, n |-> <<cx>>, a |-> <<SV(<<cy>>), SV(<<cx>>)>>],
                  [d |-> 1, n |-> <<cy, cX>>, a |-> <<SV(<<cx, cy>>)>>], [d |-> 1, n |-> <<cb>>, a |-> <<IV(2), IV(1)>>],
                  [d |-> 2, n |-> <<cX>>, a |-> <<>>], [d |-> 1, n |-> <<ca, cy>>, a |-> <<SV(<<cy, cX>>), IV(3)>>] >>

(* ---- part "fold": case-insensitive predicates on text beyond ASCII, including the special-casing ----    *)
(* characters on which lower-casing and case folding differ: truth tables of every term of depth <= 1 over  *)
(* FoldAtoms, and small forests of FoldKinds x one-level queries with such name / attribute predicates      *)
css == 223  cSS == 7838  cs == 115  cS == 83  ce == 233  cE == 201  csf == 962  csg == 963  cfi == 64257  cf == 102  cci == 105
FoldArgs  == {SV(<<css>>), SV(<<cS, cS>>), SV(<<cE>>), SV(<<csf>>), SV(<<cfi>>)}
FoldAtoms == {Atom(g, TRUE, a) : g \in Caseless, a \in FoldArgs}
             \cup {Atom("eq", FALSE, SV(<<css>>)), Atom("ge", FALSE, SV(<<ce>>))}
FoldValues == << SV(<<css>>), SV(<<cs, cs>>), SV(<<cS, cS>>), SV(<<cSS>>), SV(<<cE>>), SV(<<ce>>), SV(<<csf>>), SV(<<csg>>),
                 SV(<<cfi>>), SV(<<cf, cci>>), SV(<<ca, css>>), SV(<<cA, cS, cS>>), SV(<<ce, csf, cx>>), IV(1), X >>
FoldKinds == { [n |-> <<css>>, a |-> <<SV(<<cE>>)>>], [n |-> <<cS, cS>>, a |-> <<SV(<<css>>), IV(1)>>],
               [n |-> <<cs, cs>>, a |-> <<SV(<<cf, cci>>)>>], [n |-> <<ce, csf>>, a |-> <<SV(<<cfi>>), SV(<<cs, cs>>)>>],
               [n |-> <<cE, csg>>, a |-> <<>>] }
FoldForests ==
    UNION {{[i \in 1..n |-> IF i = 1 THEN [d |-> 0, n |-> <<>>, a |-> <<>>] ELSE [d |-> s[i], n |-> k[i].n, a |-> k[i].a]]
             : s \in DepthSeqs(n, FALSE), k \in [1..n -> FoldKinds]} : n \in 2..3}
FoldNameTerms == { Atom("eq", TRUE, SV(<<css>>)), Atom("eq", TRUE, SV(<<cS, cS>>)), Not(Atom("eq", TRUE, SV(<<css>>))),
                   Atom("startswith", TRUE, SV(<<cE>>)), Atom("endswith", TRUE, SV(<<csf>>)),
                   And(Not(Atom("eq", TRUE, SV(<<cs, cs>>))), Not(Atom("eq", FALSE, SV(<<ce, csf>>)))) }
FoldAttrTerms == { Atom("eq", TRUE, SV(<<css>>)), Atom("eq", TRUE, SV(<<cfi>>)), Not(Atom("eq", TRUE, SV(<<cS, cS>>))),
                   Atom("contains", TRUE, SV(<<cE>>)), Or(Atom("eq", TRUE, SV(<<cf, cci>>)), Atom("lt", FALSE, IV(2))) }
FoldLevels == {Level("term", <<>>, t, "none", <<>>) : t \in FoldNameTerms}
              \cup {Level("any", <<>>, NoTerm, "any", <<ETerm(t)>>) : t \in FoldAttrTerms}
              \cup {Level("lit", <<cs, cs>>, NoTerm, "all", <<ETerm(Atom("eq", TRUE, SV(<<cfi>>)))>>),
                    Level("any", <<>>, NoTerm, "nany", <<ETerm(Atom("eq", TRUE, SV(<<css>>)))>>)}
FoldQueries == {[qs |-> <<l>>, deep |-> d, roots |-> FALSE] : l \in FoldLevels, d \in BOOLEAN}

(* ---- states ---- *)
VARIABLES ph, f, q, t
vars == <<ph, f, q, t>>
DummyQ == [qs |-> <<AnyQ>>, deep |-> FALSE, roots |-> FALSE]
DummyF == << [d |-> 0, n |-> <<>>, a |-> <<>>] >>

Init ==
    CASE Part = "truth" -> ph = "b" /\ f = DummyF /\ q = DummyQ /\ t \in Bases
      [] Part = "struct" -> ph = "f" /\ f \in StructForests /\ q = DummyQ /\ t = NoTerm
      [] Part = "reuse" -> ph = "o" /\ f = ReuseForest /\ q = DummyQ /\ t \in ReuseBases
      [] Part = "fold" -> \/ ph = "b" /\ f = DummyF /\ q = DummyQ /\ t \in FoldAtoms
                          \/ ph = "f" /\ f \in FoldForests /\ q = DummyQ /\ t = NoTerm
      [] OTHER -> ph = "f" /\ f \in AttrForests /\ q = DummyQ /\ t = NoTerm
Next ==
    \/ /\ ph = "f" /\ ph' = "q" /\ f' = f /\ t' = t
       /\ q' \in (CASE Part = "struct" -> StructQueries [] Part = "fold" -> FoldQueries [] OTHER -> AttrQueries)
    \/ /\ ph = "b" /\ ph' = "t" /\ f' = f /\ q' = q
       /\ t' \in (IF Part = "fold" THEN {t, Not(t)} \cup Pairs(t, FoldAtoms) ELSE Succ(t))
    \/ /\ ph = "o" /\ ph' = "r" /\ f' = f /\ t' = t          \* q holds the combination step built from the object t
       /\ q' \in ReuseSteps
Spec == Init /\ [][Next]_vars

TVals == IF Part = "fold" THEN FoldValues ELSE Values

Recv == Docs(f)

InvDocumentOrder == ph = "q" => DocumentOrder(f, Recv, q.qs, q.deep)
InvRootsDedup    == ph = "q" => RootsDedup(f, Recv, q.qs, q.deep)
InvExact         == ph = "q" => RaisingNeverMatches(f, Recv, q.qs, q.deep)
InvAlgebra       == ph = "t" => \A i \in DOMAIN TVals :
                        /\ Algebra(t, Atom("eq", FALSE, X), TVals[i])
                        /\ Algebra(t, Not(Atom("lt", FALSE, IV(2))), TVals[i])
InvStrict        == ph = "t" => \A j \in DOMAIN TVals : StrictLaw(t, TVals[j])
InvCaseless      == ph = "t" => \A i \in DOMAIN t : \A j \in DOMAIN TVals :
                        t[i].op = "atom" => CaselessLaw(t[i], TVals[j])
InvReuse         == ph = "r" => \A j \in DOMAIN Values : ReuseLaw(t, q.other, q.op, q.side, Values[j])
InvFold          == ph = "t" => /\ \A j \in DOMAIN Values : FoldLaw(t, Values[j])
                               /\ \A j \in DOMAIN TVals : FoldLaw(t, TVals[j]) /\ FoldLaw(Atom("eq", TRUE, BX), TVals[j])

RECURSIVE SumTo(_, _)
SumTo(g, n) == IF n = 0 THEN 0 ELSE g[n] + SumTo(g, n - 1)
LevelCode(lv) == (CASE lv.nk = "any" -> 1 [] lv.nk = "lit" -> 2 + lv.nlit[1] [] lv.nk = "term" -> 5 + Len(lv.nterm) [] OTHER -> 11)
                 + (CASE lv.am = "none" -> 0 [] lv.am = "any" -> 13 [] lv.am = "all" -> 17 [] lv.am = "nany" -> 19 [] OTHER -> 23)
                 + SumTo([j \in DOMAIN lv.aq |-> IF lv.aq[j].k = "lit" THEN 3 + lv.aq[j].lit.i + Len(lv.aq[j].lit.s) ELSE 7 * Len(lv.aq[j].term)], Len(lv.aq))
Code == SumTo([i \in DOMAIN f |-> (i + 2) * (f[i].d + 1) + (IF f[i].n = <<>> THEN 0 ELSE f[i].n[1]) + Len(f[i].a)], Len(f))
        + SumTo([j \in DOMAIN q.qs |-> (3 * j + 1) * LevelCode(q.qs[j])], Len(q.qs))
        + (IF q.deep THEN 29 ELSE 0) + (IF q.roots THEN 31 ELSE 0)
Sampled == EmitEvery = 1 \/ Code % EmitEvery = Salt % EmitEvery

Emit ==
    CASE ph = "q" /\ ~Sampled -> TRUE
      [] ph = "q" -> PrintT(<<"CASE", ToJson([part |-> Part, forest |-> f, qs |-> q.qs, deep |-> q.deep, roots |-> q.roots,
                                              expect |-> Select(f, Recv, q.qs, q.deep)])>>)
      [] ph = "t" -> PrintT(<<"CASE", ToJson([part |-> Part, term |-> t, vals |-> TVals,
                                              expect |-> [i \in DOMAIN TVals |-> Truth(t, TVals[i])]])>>)
      [] ph = "r" -> PrintT(<<"CASE", ToJson([part |-> Part, base |-> t, op |-> q.op, side |-> q.side, other |-> q.other,
                                              vals |-> Values, forest |-> f])>>)
      [] OTHER -> TRUE
=============================================================================
