--------------------------- MODULE RpmVercmpTrace ---------------------------
(***************************************************************************)
(* Trace validation for C13.  A trace carries the strings / EVR triples the *)
(* real code was run on (strs, evrs) and a list of call events; every event *)
(* holds the observed results of one row of calls.  An event is accepted    *)
(* iff every observed result equals the reference (VerCmp / EvrCmp / OpsOf  *)
(* / IsMaxAt / IsMinAt of RpmVercmp) evaluated by TLC on the same inputs.   *)
(*                                                                         *)
(*   vrow : a |-> i, rs |-> <<r_1..r_n>>      r_j = _rpm_vercmp(strs[i], strs[j])            *)
(*   erow : a |-> i, lc |-> class of the left operands, rc |-> class of the right operands   *)
(*          (InstalledRpm, its subclass YumListRpm, a subclass of the driver's own),         *)
(*          la, ra |-> their architectures ("" = none),                                      *)
(*          cmp |-> <<..>>, ops |-> <<..>>                                                   *)
(*                cmp[j] = rpm_version_compare(evrs[i], evrs[j]),                            *)
(*                ops[j] = <<x<y, x==y, x>y, x<=y, x>=y, x!=y>> of the InstalledRpm objects  *)
(*   sel  : via |-> which RpmList holds the packages (InstalledRpms from JSON / rpm -qa      *)
(*                lines, YumListInstalled / YumListAvailable, a class of its own using the   *)
(*                mixin, an InstalledRpms whose packages were extended after parsing),       *)
(*          pk |-> <<indices into evrs>> in the order given to it, n |-> how many of them it *)
(*                holds (-1: building it raised), mx / mn / gmx / gmn |-> positions in pk of *)
(*                the objects returned by newest / oldest / get_max / get_min                *)
(*                (0: none of the packages, -1: raised).  A holder that was asked, then       *)
(*                given more packages (via "<kind>+reparse|append|insert") and asked again   *)
(*                is a second sel event: pk is what it lists NOW                             *)
(*   table: a |-> i, b |-> j, r |-> expected  (upstream rpmvercmp.at row: validates the      *)
(*                transcription; a rejection is a machinery failure, see p_rpm.py)           *)
(* An observed exception is recorded as result 99 (ops: the empty tuple).   *)
(***************************************************************************)
EXTENDS RpmVercmp, TLC, Json, IOUtils, TLCExt

Batch == JsonDeserialize(IOEnv.TRACE_FILE)

VARIABLES tid, l
tvars == <<tid, l>>

T    == Batch[tid]
Ev   == T.events[l + 1]
More == l < Len(T.events)

S(i) == T.strs[i]
E(i) == T.evrs[i]

(* classes the compared package objects are built from: the answer must not depend on them *)
PkgClasses == {"InstalledRpm", "YumListRpm", "OwnRpm"}
(* architecture of the operands ("" = none): RPM's comparison is on epoch:version-release, the       *)
(* architecture takes no part in it (reading, notes/C13.md)                                          *)
PkgArchs == {"", "x86_64", "i686", "noarch"}
ArchTxt(a) == IF a = "" THEN "noarch-field" ELSE a
Pairing == Ev.lc \o "-vs-" \o Ev.rc \o
           (IF Ev.la = "x86_64" /\ Ev.ra = "x86_64" THEN ""
            ELSE IF Ev.la = Ev.ra THEN ":same-arch" ELSE ":arch-" \o ArchTxt(Ev.la) \o "-vs-" \o ArchTxt(Ev.ra))

VRowOK  == \A j \in DOMAIN T.strs : Ev.rs[j] = VerCmp(S(Ev.a), S(j))
ERowOK  == \A j \in DOMAIN T.evrs :
              LET c == EvrCmp(E(Ev.a), E(j)) IN Ev.cmp[j] = c /\ Ev.ops[j] = OpsOf(c)
PkOf    == [i \in DOMAIN Ev.pk |-> E(Ev.pk[i])]
SelOK   == /\ Ev.n = Len(Ev.pk)                                    \* the list really holds the packages
           /\ IsMaxAt(PkOf, Ev.mx) /\ IsMinAt(PkOf, Ev.mn)           \* newest / oldest
           /\ IsMaxAt(PkOf, Ev.gmx) /\ IsMinAt(PkOf, Ev.gmn)         \* get_max / get_min
TableOK == VerCmp(S(Ev.a), S(Ev.b)) = Ev.r

WellFormed ==
    CASE Ev.ev = "vrow"  -> Ev.a \in DOMAIN T.strs /\ Len(Ev.rs) = Len(T.strs)
      [] Ev.ev = "erow"  -> Ev.a \in DOMAIN T.evrs /\ Len(Ev.cmp) = Len(T.evrs) /\ Len(Ev.ops) = Len(T.evrs)
                            /\ Ev.lc \in PkgClasses /\ Ev.rc \in PkgClasses
                            /\ Ev.la \in PkgArchs /\ Ev.ra \in PkgArchs
                            /\ \A j \in DOMAIN T.evrs : EpochOK(E(j).e)
      [] Ev.ev = "sel"   -> Len(Ev.pk) > 0 /\ \A i \in DOMAIN Ev.pk : Ev.pk[i] \in DOMAIN T.evrs /\ EpochOK(E(Ev.pk[i]).e)
      [] Ev.ev = "table" -> Ev.a \in DOMAIN T.strs /\ Ev.b \in DOMAIN T.strs
      [] OTHER -> FALSE

Accepts ==
    /\ WellFormed
    /\ CASE Ev.ev = "vrow"  -> VRowOK
         [] Ev.ev = "erow"  -> ERowOK
         [] Ev.ev = "sel"   -> SelOK
         [] Ev.ev = "table" -> TableOK
         [] OTHER -> FALSE

(* number of calls an event stands for (reported in STAT) *)
Calls == CASE Ev.ev = "vrow" -> Len(T.strs)
           [] Ev.ev = "erow" -> 7 * Len(T.evrs)
           [] Ev.ev = "sel"  -> 4
           [] OTHER -> 1

(* ---- diagnosis: failing clause + the branch of the reference that decides *)
Str(n) == IF n < 0 THEN "m" \o ToString(-n) ELSE ToString(n)

DiagV ==
    LET j == CHOOSE j \in DOMAIN T.strs : Ev.rs[j] # VerCmp(S(Ev.a), S(j))
        d == VerCmpD(S(Ev.a), S(j))
    IN [clause |-> "VerCmp:" \o d.why \o ":want" \o Str(d.r) \o ":got" \o Str(Ev.rs[j]),
        at |-> <<Ev.a, j>>]

DiagE ==
    LET j == CHOOSE j \in DOMAIN T.evrs :
                 LET c == EvrCmp(E(Ev.a), E(j)) IN ~(Ev.cmp[j] = c /\ Ev.ops[j] = OpsOf(c))
        d == EvrCmpD(E(Ev.a), E(j))
    IN IF Ev.cmp[j] # d.r
       THEN [clause |-> "EvrCmp:" \o d.why \o ":want" \o Str(d.r) \o ":got" \o Str(Ev.cmp[j]) \o ":" \o Pairing,
             at |-> <<Ev.a, j>>]
       ELSE IF Len(Ev.ops[j]) # 6
       THEN [clause |-> "RichOps:raised:when" \o Str(d.r) \o ":" \o Pairing, at |-> <<Ev.a, j>>]
       ELSE LET o == CHOOSE o \in 1..6 : Ev.ops[j][o] # OpsOf(d.r)[o] IN
            [clause |-> "RichOps:" \o OpNames[o] \o ":when" \o Str(d.r) \o ":got" \o ToString(Ev.ops[j][o])
                        \o ":" \o Pairing, at |-> <<Ev.a, j>>]

Where(m) == IF m = -1 THEN "raised" ELSE IF m \in DOMAIN Ev.pk THEN "not-extremal" ELSE "not-a-member"
DiagS ==
    IF Ev.n = -1 THEN [clause |-> "Lookup:building-the-list-raised:via-" \o Ev.via, at |-> <<>>]
    ELSE IF Ev.n # Len(Ev.pk) THEN [clause |-> "Lookup:packages-lost:via-" \o Ev.via, at |-> <<>>]
    ELSE IF ~IsMaxAt(PkOf, Ev.mx)
    THEN [clause |-> "Newest:" \o (IF Where(Ev.mx) = "not-extremal" THEN "not-a-maximum" ELSE Where(Ev.mx))
                     \o ":via-" \o Ev.via, at |-> <<Ev.mx>>]
    ELSE IF ~IsMinAt(PkOf, Ev.mn)
    THEN [clause |-> "Oldest:" \o (IF Where(Ev.mn) = "not-extremal" THEN "not-a-minimum" ELSE Where(Ev.mn))
                     \o ":via-" \o Ev.via, at |-> <<Ev.mn>>]
    ELSE IF ~IsMaxAt(PkOf, Ev.gmx)
    THEN [clause |-> "GetMax:" \o (IF Where(Ev.gmx) = "not-extremal" THEN "not-a-maximum" ELSE Where(Ev.gmx))
                     \o ":via-" \o Ev.via, at |-> <<Ev.gmx>>]
    ELSE [clause |-> "GetMin:" \o (IF Where(Ev.gmn) = "not-extremal" THEN "not-a-minimum" ELSE Where(Ev.gmn))
                     \o ":via-" \o Ev.via, at |-> <<Ev.gmn>>]

Diagnose ==
    IF ~WellFormed THEN [clause |-> "malformed-event", at |-> <<>>]
    ELSE CASE Ev.ev = "vrow"  -> DiagV
           [] Ev.ev = "erow"  -> DiagE
           [] Ev.ev = "sel"   -> DiagS
           [] Ev.ev = "table" ->
                LET d == VerCmpD(S(Ev.a), S(Ev.b)) IN
                [clause |-> "Transcription:" \o d.why \o ":spec" \o Str(d.r) \o ":upstream" \o Str(Ev.r),
                 at |-> <<Ev.a, Ev.b>>]
           [] OTHER -> [clause |-> "unknown-event", at |-> <<>>]

Advance ==
    IF tid < Len(Batch) THEN tid' = tid + 1 /\ l' = 0
    ELSE tid' = Len(Batch) + 1 /\ l' = 0

TraceInit == tid = 1 /\ l = 0

(* One total action.  Unlike a state machine trace, the events of a C13     *)
(* trace are independent calls of a pure function, so a rejected event does *)
(* not end the trace: it is recorded and the next event is examined.        *)
TraceNext ==
    /\ tid <= Len(Batch)
    /\ IF ~More THEN Advance
       ELSE /\ IF Accepts THEN TRUE
               ELSE LET d == Diagnose IN
                    TLCSet(1, TLCGet(1) \cup {[id |-> T.id, line |-> l + 1, clause |-> d.clause, at |-> d.at]})
            /\ TLCSet(2, TLCGet(2) + 1) /\ TLCSet(3, TLCGet(3) + Calls)
            /\ l' = l + 1 /\ tid' = tid
TraceSpec == TraceInit /\ [][TraceNext]_tvars

ASSUME TLCSet(1, {}) /\ TLCSet(2, 0) /\ TLCSet(3, 0)

Post ==
    /\ \A r \in TLCGet(1) : PrintT(<<"REJ", ToJson(r)>>)
    /\ PrintT(<<"STAT", ToJson([traces |-> Len(Batch), events |-> TLCGet(2), calls |-> TLCGet(3)])>>)

=============================================================================
