\* cache rule "component a filter is stored on + its direct dependencies" (seeded change C07-1): TLC finds the stale
\* look-up on a datasource two levels below the registry point - get(D1), add(P, {1}), get(D1).  Expected: LookupIsUnionInv violated.
SPECIFICATION SpecHist
CONSTANTS
  NP = 2
  BudSet = {1}
  Depth = 5
  CacheRule = "direct"
  AddSet = {"I1", "I2", "P", "I3", "P2", "Q1", "Q2", "K"}
  GetSet = {"I1", "I2", "P", "D1", "D0"}
  PatSets = {{1}, {2}, {0}}
  MaxLines = 0
  CBudSet = {0}
  PathSet = {"archive"}
INVARIANT LookupIsUnionInv
INVARIANT TableIsUnion
INVARIANT LookupBudgetsInv
CHECK_DEADLOCK FALSE
