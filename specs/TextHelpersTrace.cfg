SPECIFICATION TraceSpec
CONSTANTS
  Fam = "trace"
  N = 0
  Deep = FALSE
POSTCONDITION Post
CHECK_DEADLOCK FALSE
