------------------------------- MODULE Filters -------------------------------
(***************************************************************************)
(* Filters of insights-core (insights/core/filters.py,                      *)
(* insights/cleaner/filters.py, insights/core/spec_factory.py:217-303,      *)
(* 407-414, insights/cleaner/__init__.py:112-167).                          *)
(*                                                                         *)
(* Two machines share this module (a behaviour belongs to one of them).     *)
(*                                                                         *)
(* HISTORIES (SpecHist).  Component graph                                   *)
(*     I1, I2 --> P (filterable registry point) <-- Q1, Q2 (parsers) <-- K  *)
(*     D0 --> D1 --> I1   (I1 is built on further datasources, as a         *)
(*                         first_of(...) implementation is: D1, D0 are NOT   *)
(*                         filterable themselves but are what providers are  *)
(*                         built for, so they are looked up)                 *)
(*     I3 --> P2 (second registry point, filterable or not: g.p2f)          *)
(* where Q2 is built on g.q2 (P, P2 or both) and the combiner K on g.k:     *)
(* parsers only, or MIXED LEVELS - the parser Q1 (of P) together with the   *)
(* spec P2 consumed directly, as in @combiner(AlphaParser, Specs.beta).     *)
(* A behaviour is any interleaving of AddFilter(k, pats, mx) and            *)
(* GetFilters(c).  The REQUIREMENT is kept in eff (what the statement of    *)
(* C07 says is in force, computed from the registrations alone); the        *)
(* implementation-shaped part (FILTERS table, per-component look-up cache   *)
(* with the invalidation rule CacheRule) produces the look-up results.      *)
(* LookupIsUnion says every look-up returns exactly eff.  With CacheRule =  *)
(* "self" (invalidate only the component a filter is stored on) or "direct" *)
(* (that component and its direct dependencies) TLC produces a              *)
(* counterexample; with "all" or "none" the property holds.                 *)
(*                                                                         *)
(* CONTENT (SpecContent).  A content is a sequence of line classes (blank,  *)
(* or the set of filter strings the line contains); allow0 gives the match  *)
(* budget of every registered filter (0: not registered).  KeepLine is the  *)
(* bottom-up budgeted selection of AllowFilter: the first matching          *)
(* remaining key pays (WHICH key is first depends on dictionary order: any  *)
(* matching key may pay), a key is dropped when its budget is spent.  The   *)
(* four code paths differ in budgets and blank lines only (PathSet).        *)
(***************************************************************************)
EXTENDS Naturals, Sequences, FiniteSets, TLC

CONSTANTS
    NP,          \* filter strings 1..NP (0 stands for the empty string, which is refused)
    BudSet,      \* match budgets explored in histories
    Depth,       \* longest history
    CacheRule,   \* "none" | "all" | "self" | "direct" | "newstring"
    AddSet,      \* components filters are added to
    GetSet,      \* components looked up
    PatSets,     \* pattern arguments explored (sets of 0..NP)
    MaxLines,    \* longest content
    CBudSet,     \* content budgets explored (0 = filter not registered); Inf = no limit in practice
    PathSet      \* "host" | "archive" | "cleaner" | "helper" | "serialized" (content stored in a serialized
                 \* archive - meta_data/ + data/ - and loaded back: the analysis-side selection on load)

VARIABLES
    g,           \* graph parameters [p2f, q2, k]
    eff,         \* REQUIREMENT: [datasource -> set of filter strings in force]
    FILTERS,     \* [datasource -> [Pat -> budget, 0 = absent]]       filters.FILTERS
    cache,       \* [datasource -> [set, v]]                          filters._CACHE
    ret,         \* last operation: [op, c, v, raised]
    nops,        \* operations so far
    lines, allow0, path, rem, idx, out, collected, cphase      \* content machine

hvars == <<g, eff, FILTERS, cache, ret, nops>>
cvars == <<lines, allow0, path, rem, idx, out, collected, cphase>>
vars  == <<hvars, cvars>>

Pat     == 1..NP
Inf     == 10000                      \* filters.MAX_MATCH
DS      == {"I1", "I2", "P", "I3", "P2", "D1", "D0"}
Inner   == {"D1", "D0"}                \* datasources an implementation is built on
Parsers == {"Q1", "Q2"}
Combs   == {"K"}
Points  == {"P", "P2"}
Graphs  == [p2f : BOOLEAN, q2 : {{"P"}, {"P2"}, {"P", "P2"}}, k : {{"Q1"}, {"Q2"}, {"Q1", "Q2"}}]
             \cup [p2f : BOOLEAN, q2 : {{"P"}}, k : {{"Q1", "P2"}}]      \* mixed levels (Q2 is not involved)

Owner(c)   == IF c \in Inner THEN "I1" ELSE c        \* the implementation an inner datasource belongs to
PointOf(c) == IF c \in {"I1", "I2", "P", "D1", "D0"} THEN "P" ELSE "P2"
(* delegate.filterable: registry points and their implementations; never the inner datasources *)
Filterable(d, G) == d \in {"I1", "I2", "P"} \/ (d \in {"I3", "P2"} /\ G.p2f)
(* look-ups the statement speaks about: datasources of a filterable spec, at any depth below it *)
Judged(c, G)     == Filterable(Owner(c), G)
(* dr.get_dependencies restricted to datasources *)
DirectDeps(d) == CASE d = "P"  -> {"I1", "I2"}
                   [] d = "P2" -> {"I3"}
                   [] d = "I1" -> {"D1"}
                   [] d = "D1" -> {"D0"}
                   [] OTHER    -> {}
(* get_dependency_datasources (filters.py:74-82): the first datasources below a component *)
FirstDs(k, G) ==
    CASE k \in DS  -> {k}
      [] k = "Q1" -> {"P"}
      [] k = "Q2" -> G.q2
      [] OTHER    -> UNION {IF q = "Q1" THEN {"P"} ELSE IF q = "Q2" THEN G.q2 ELSE {q} : q \in G.k}   \* every level
Targets(k, G) == IF k \in DS THEN {k} ELSE {d \in FirstDs(k, G) : Filterable(d, G)}

(* filters.py:109-134 and 96-103: what add_filter refuses *)
Legal(k, pats, mx, G) ==
    /\ mx > 0
    /\ 0 \notin pats
    /\ IF k \in DS THEN Filterable(k, G) ELSE Targets(k, G) # {}

(* The statement: a registration on k is in force for datasource c when k   *)
(* is c itself, the spec c implements, or a parser / combiner built on that *)
(* spec; for a datasource an implementation is built on: whatever is in     *)
(* force for that implementation.                                           *)
Reaches(k, c, G) ==
    \/ k = Owner(c)
    \/ k = PointOf(c)
    \/ k \in Parsers \cup Combs /\ PointOf(c) \in FirstDs(k, G)

NoFilters == [p \in Pat |-> 0]
Dom(f)    == {p \in Pat : f[p] # 0}
MaxOf(a, b) == IF a >= b THEN a ELSE b
Overlay(a, b) == [p \in Pat |-> IF b[p] # 0 THEN b[p] ELSE a[p]]            \* dict.update

(* get_filters.inner (filters.py:164-183): own table, then the dependents that are datasources *)
(* (an inner datasource has no table of its own: the walk goes on to its implementation) *)
Walk(c) ==
    LET o == Owner(c) IN
    IF ~Filterable(o, g) THEN NoFilters
    ELSE IF o \in Points THEN FILTERS[o] ELSE Overlay(FILTERS[o], FILTERS[PointOf(o)])

NoCache == [set |-> FALSE, v |-> NoFilters]

AddFilter(k, pats, mx) ==
    /\ nops < Depth
    /\ nops' = nops + 1
    /\ IF Legal(k, pats, mx, g)
         THEN /\ eff' = [c \in DS |-> IF Reaches(k, c, g) /\ Judged(c, g) THEN eff[c] \cup pats ELSE eff[c]]
              /\ FILTERS' = [d \in DS |-> IF d \in Targets(k, g)
                                            THEN [p \in Pat |-> IF p \in pats THEN MaxOf(FILTERS[d][p], mx) ELSE FILTERS[d][p]]
                                            ELSE FILTERS[d]]
              /\ cache' = CASE CacheRule = "self" -> [d \in DS |-> IF d \in Targets(k, g) THEN NoCache ELSE cache[d]]
                            [] CacheRule = "direct" ->
                                 [d \in DS |-> IF d \in Targets(k, g) \cup UNION {DirectDeps(t) : t \in Targets(k, g)}
                                                 THEN NoCache ELSE cache[d]]
                            [] CacheRule = "all"  -> [d \in DS |-> NoCache]
                            [] CacheRule = "newstring" ->      \* flush only when a string is new for its target
                                 IF \E d \in Targets(k, g) : \E p \in pats : FILTERS[d][p] = 0
                                   THEN [d \in DS |-> NoCache] ELSE cache
                            [] OTHER              -> cache
              /\ ret' = [op |-> "add", c |-> k, v |-> NoFilters, raised |-> FALSE]
         ELSE /\ ret' = [op |-> "add", c |-> k, v |-> NoFilters, raised |-> TRUE]
              /\ UNCHANGED <<eff, FILTERS, cache>>
    /\ UNCHANGED <<g, cvars>>

GetFilters(c) ==
    /\ nops < Depth
    /\ nops' = nops + 1
    /\ LET v == IF CacheRule # "none" /\ cache[c].set THEN cache[c].v ELSE Walk(c) IN
         /\ ret' = [op |-> "get", c |-> c, v |-> v, raised |-> FALSE]
         /\ cache' = IF CacheRule = "none" THEN cache ELSE [cache EXCEPT ![c] = [set |-> TRUE, v |-> v]]
    /\ UNCHANGED <<g, eff, FILTERS, cvars>>

Add     == \E k \in AddSet, pats \in PatSets, mx \in BudSet : AddFilter(k, pats, mx)
Get     == \E c \in GetSet : GetFilters(c)
NextHist == Add \/ Get

CIdle ==
    /\ lines = <<>> /\ allow0 = NoFilters /\ path = "none" /\ rem = NoFilters /\ idx = 0 /\ out = <<>>
    /\ collected = FALSE /\ cphase = "idle"

InitHistWith(G) ==
    /\ g = G
    /\ eff = [c \in DS |-> {}]
    /\ FILTERS = [d \in DS |-> NoFilters]
    /\ cache = [d \in DS |-> NoCache]
    /\ ret = [op |-> "none", c |-> "P", v |-> NoFilters, raised |-> FALSE]
    /\ nops = 0
    /\ CIdle

InitHist == \E G \in Graphs : InitHistWith(G)
(* checking configurations hide the operation counter (breadth-first search reaches every state *)
(* first with its smallest counter)                                                            *)
HistView  == <<g, eff, FILTERS, cache, ret>>
SpecHist == InitHist /\ [][NextHist]_vars

(* every look-up returns the union of what was registered so far *)
LookupIsUnionInv == ret.op = "get" /\ Judged(ret.c, g) => Dom(ret.v) = eff[ret.c]
LookupIsUnion    == [][(ret'.op = "get" /\ Judged(ret'.c, g)) => Dom(ret'.v) = eff'[ret'.c]]_vars
(* budgets: a look-up returns, per string, the current maximum of the implementation's own table or of its   *)
(* spec's table - never a budget a later registration has raised (refuted for CacheRule = "newstring")       *)
LookupBudgetsInv ==
    (ret.op = "get" /\ Judged(ret.c, g)) =>
        \A p \in Dom(ret.v) : ret.v[p] \in {FILTERS[Owner(ret.c)][p], FILTERS[PointOf(ret.c)][p]} \ {0}
(* the table itself always holds the requirement (it is the cache that can lag) *)
TableIsUnion     == \A c \in DS : Judged(c, g) => Dom(Walk(c)) = eff[c]

-----------------------------------------------------------------------------
(* CONTENT *)
LineClasses == [blank : {TRUE}, has : {{}}] \cup [blank : {FALSE}, has : SUBSET Pat]
(* A multi-output spec (glob_file, foreach_collect ...) yields a LIST of contents; each file of the list is a content of  *)
(* its own, selected with its own budgets under the semantics of the path it came through (MultiOf).           *)
MultiOf(p) == CASE p = "archive-multi" -> "archive" [] p = "serialized-multi" -> "serialized"
                [] p = "host-multi" -> "host" [] OTHER -> p
Budgeted(p) == MultiOf(p) \in {"archive", "cleaner", "serialized"}
KeepsBlank(p) == p = "cleaner"

InitContent ==
    /\ g = [p2f |-> FALSE, q2 |-> {"P"}, k |-> {"Q1"}] /\ eff = [c \in DS |-> {}]
    /\ FILTERS = [d \in DS |-> NoFilters] /\ cache = [d \in DS |-> NoCache]
    /\ ret = [op |-> "none", c |-> "P", v |-> NoFilters, raised |-> FALSE] /\ nops = 0
    /\ lines \in UNION {[1..n -> LineClasses] : n \in 0..MaxLines}
    /\ allow0 \in [Pat -> CBudSet]
    /\ path \in PathSet
    /\ rem = (IF Budgeted(path) THEN allow0 ELSE [p \in Pat |-> IF allow0[p] # 0 THEN Inf ELSE 0])
    /\ idx = Len(lines)
    /\ out = <<>>
    /\ collected = FALSE
    /\ cphase = "start"

(* spec_factory.py:222-225 / 398-401: a filterable spec without filters is not collected on a host *)
Start ==
    /\ cphase = "start"
    /\ IF MultiOf(path) = "host" /\ Dom(allow0) = {}
         THEN cphase' = "done" /\ collected' = FALSE
         ELSE cphase' = "run" /\ collected' = TRUE
    /\ UNCHANGED <<hvars, lines, allow0, path, rem, idx, out>>

(* one line, bottom-up (AllowFilter.filter_content / parse_line; grep and the test helper never run out of budget) *)
KeepLine ==
    /\ cphase = "run" /\ idx > 0
    /\ idx' = idx - 1
    /\ LET ln == lines[idx]
           m  == {p \in Dom(rem) : p \in ln.has}
       IN IF Dom(allow0) = {} /\ MultiOf(path) \in {"helper", "archive", "serialized"}
            THEN out' = <<idx>> \o out /\ rem' = rem                     \* no filters: everything passes
            ELSE IF ln.blank
            THEN /\ out' = IF KeepsBlank(path) THEN <<idx>> \o out ELSE out
                 /\ rem' = rem
            ELSE IF m = {}
            THEN out' = out /\ rem' = rem
            ELSE /\ out' = <<idx>> \o out
                 /\ \E p \in m : rem' = [rem EXCEPT ![p] = IF @ >= Inf THEN @ ELSE @ - 1]
    /\ UNCHANGED <<hvars, lines, allow0, path, collected, cphase>>

Finish ==
    /\ cphase = "run" /\ idx = 0
    /\ cphase' = "done"
    /\ out' = IF path = "cleaner" /\ \A i \in DOMAIN out : lines[out[i]].blank THEN <<>> ELSE out   \* all blank -> nothing
    /\ UNCHANGED <<hvars, lines, allow0, path, rem, idx, collected>>

NextContent == Start \/ KeepLine \/ Finish
SpecContent == InitContent /\ [][NextContent]_vars

(* ---- the content part of the statement, as operators over (lines, allow, out) so that the trace
        module evaluates the very same definitions on what the code produced ---- *)
RngS(s) == {s[i] : i \in DOMAIN s}
MaxS(S) == CHOOSE x \in S : \A y \in S : y <= x
MatchesOf(L, f) == {i \in DOMAIN L : ~L[i].blank /\ f \in L[i].has}
SubsequenceOf(L, O) ==
    /\ \A i \in DOMAIN O : O[i] \in DOMAIN L
    /\ \A i, j \in DOMAIN O : i < j => O[i] < O[j]
KeptLinesMatchOf(L, A, O) ==
    \A i \in DOMAIN O : (O[i] \in DOMAIN L /\ ~L[O[i]].blank) => L[O[i]].has \cap Dom(A) # {}
LastMatchKeptOf(L, A, O) ==
    \A f \in Dom(A) : MatchesOf(L, f) # {} => MaxS(MatchesOf(L, f)) \in RngS(O)
DroppedOnlyWhenBudgetSpentOf(L, A, O) ==
    \A i \in DOMAIN L : (~L[i].blank /\ L[i].has \cap Dom(A) # {} /\ i \notin RngS(O)) =>
        \A f \in L[i].has \cap Dom(A) :
            Cardinality({j \in RngS(O) : j > i /\ j \in MatchesOf(L, f)}) >= A[f]

CDone == cphase = "done" /\ collected
HasFilters == Dom(allow0) # {}
Subsequence                == CDone => SubsequenceOf(lines, out)
KeptLinesMatch             == (CDone /\ HasFilters) => KeptLinesMatchOf(lines, allow0, out)
LastMatchKept              == (CDone /\ HasFilters) => LastMatchKeptOf(lines, allow0, out)
DroppedOnlyWhenBudgetSpent == (CDone /\ HasFilters) => DroppedOnlyWhenBudgetSpentOf(lines, allow0, out)
NoFilterNoHostCollection   == (cphase = "done" /\ MultiOf(path) = "host" /\ ~HasFilters) => ~collected

=============================================================================
