------------------------------ MODULE PegTrace ------------------------------
(***************************************************************************)
(* Trace validation for the combinator part of C19.  A trace carries a list *)
(* of inputs ws; an event is one term built from the real classes of        *)
(* insights.parsr together with what the built parser did on every input:   *)
(*   res[j]  = outcome of  parser.process(0, input, ctx)  as [ok, pos, v]   *)
(*             (pos 1-based, v the returned value as tokens; failure by     *)
(*             exception is [ok |-> FALSE, pos |-> 0, v |-> <<>>])           *)
(*   cres[j] = outcome of  parser(input)  as [ok, v]                        *)
(* An event is accepted iff the term is well-formed (repetition only over   *)
(* consuming sub-terms) and, on every input, both outcomes equal            *)
(* Parse(t, w, 1) of Peg evaluated by TLC.  Events are independent calls:   *)
(* a rejected event is recorded and the next one is examined.               *)
(***************************************************************************)
EXTENDS Peg, TLC, Json, IOUtils, TLCExt

Batch == JsonDeserialize(IOEnv.TRACE_FILE)

VARIABLES tid, l
tvars == <<tid, l>>

T    == Batch[tid]
Ev   == T.events[l + 1]
More == l < Len(T.events)

Shaped == /\ Ev.ev = "parse" /\ Len(Ev.res) = Len(T.ws) /\ Len(Ev.cres) = Len(T.ws)
          /\ \A j \in DOMAIN T.ws : \A i \in DOMAIN T.ws[j] : Len(T.ws[j][i]) = 1      \* inputs are character lists

OkAt(j) == LET r == Parse(Ev.t, T.ws[j], 1) IN
           Ev.res[j] = r /\ Ev.cres[j] = [ok |-> r.ok, v |-> r.v]

(* notrace events: "a failed alternative leaves no trace on what later alternatives see", for the   *)
(* context-sensitive combinators (WithIndent / HangingString keep an indent stack in the parse      *)
(* context) that Parse does not model.  The driver ran two grammars on the same input w:            *)
(*   outer = WithIndent(P >> X)  where X is Choice(WithIndent(f), H) / Opt(WithIndent(f)) >> H /     *)
(*           Many(WithIndent(f)) >> H,  P the literal prefix p, H a HangingString                   *)
(*   base  = WithIndent(P >> H)                                                                      *)
(* When the reference says f FAILS where it is tried (after the prefix), the failed alternative     *)
(* must be invisible: both grammars must have done the same.                                        *)
NTShaped == /\ Ev.ev = "notrace" /\ Ev.form \in {"choice", "opt", "many"}
            /\ \A i \in DOMAIN Ev.w : Len(Ev.w[i]) = 1
            /\ Len(Ev.p) < Len(Ev.w) /\ \A i \in DOMAIN Ev.p : Ev.w[i] = Ev.p[i]
            /\ Ev.w[Len(Ev.p) + 1] \notin {" ", "\t", "\n", "\r"}        \* WithIndent(f) tries f right there
            /\ WF(Ev.f) /\ (Ev.form = "many" => Consumes(Ev.f))
NTOK == ~Parse(Ev.f, Ev.w, Len(Ev.p) + 1).ok => Ev.outer = Ev.base

Accepts == IF Ev.ev = "notrace" THEN NTShaped /\ NTOK
           ELSE Shaped /\ WF(Ev.t) /\ \A j \in DOMAIN T.ws : OkAt(j)

RECURSIVE JoinKinds(_, _)
JoinKinds(ts, i) == IF i > Len(ts) THEN "" ELSE (IF i > 1 THEN "," ELSE "") \o ts[i].k \o JoinKinds(ts, i + 1)
Shape(t) == IF t.ts = <<>> THEN t.k ELSE t.k \o "(" \o JoinKinds(t.ts, 1) \o ")"

Diagnose ==
    IF Ev.ev = "notrace" THEN
        (IF ~NTShaped THEN [clause |-> "malformed-event", size |-> 0, at |-> 0]
         ELSE [clause |-> "NoTrace:failed-alternative-changes-later-result:withindent-" \o Ev.form,
               size |-> Size(Ev.f), at |-> 0])
    ELSE IF ~Shaped THEN [clause |-> "malformed-event", size |-> 0, at |-> 0]
    ELSE IF ~WF(Ev.t) THEN [clause |-> "malformed-term", size |-> 0, at |-> 0]
    ELSE LET j == CHOOSE j \in DOMAIN T.ws : ~OkAt(j)
             r == Parse(Ev.t, T.ws[j], 1)
             o == Ev.res[j]
             d == IF r.ok /\ ~o.ok THEN "rejects-valid"
                  ELSE IF ~r.ok /\ o.ok THEN "accepts-invalid"
                  ELSE IF r.pos # o.pos THEN "position"
                  ELSE IF r.v # o.v THEN "value"
                  ELSE "call-differs-from-process"
         IN [clause |-> "Parse:" \o d \o ":" \o Shape(Ev.t), size |-> Size(Ev.t), at |-> j]

Advance == IF tid < Len(Batch) THEN tid' = tid + 1 /\ l' = 0 ELSE tid' = Len(Batch) + 1 /\ l' = 0

TraceInit == tid = 1 /\ l = 0

TraceNext ==
    /\ tid <= Len(Batch)
    /\ IF ~More THEN Advance
       ELSE /\ IF Accepts THEN TRUE
               ELSE LET d == Diagnose IN
                    TLCSet(1, TLCGet(1) \cup {[id |-> T.id, line |-> l + 1, clause |-> d.clause,
                                              size |-> d.size, at |-> d.at]})
            /\ TLCSet(2, TLCGet(2) + 1)
            /\ l' = l + 1 /\ tid' = tid
TraceSpec == TraceInit /\ [][TraceNext]_tvars

ASSUME TLCSet(1, {}) /\ TLCSet(2, 0)

Post ==
    /\ \A r \in TLCGet(1) : PrintT(<<"REJ", ToJson(r)>>)
    /\ PrintT(<<"STAT", ToJson([traces |-> Len(Batch), events |-> TLCGet(2)])>>)

=============================================================================
