------------------------------ MODULE RulesTrace ------------------------------
(***************************************************************************)
(* Trace validation for Rules.tla (C12).                                    *)
(* A trace is one evaluation of a generated rule set by one evaluator       *)
(* (SingleEvaluator / InsightsEvaluator / JsonFormat / YamlFormat; serial   *)
(* or incremental), recorded by harness/drive_rules.py:                     *)
(*   init   rules as registered (ret kind, dependency situation, enabled,   *)
(*          key id, module id, measured size of the response and the limit) *)
(*   "att"  rule r was attempted (observer order)        -> Process(r)      *)
(*   "obs"  what the finished response holds about rule r -> compared with   *)
(*          the state the specification reached                             *)
(*   "fmt"  what a formatter shows about every rule under (missing, show)    *)
(*   "ctor" one cell of the Response constructor table                      *)
(***************************************************************************)
EXTENDS Rules, Json, IOUtils, TLCExt

Batch == JsonDeserialize(IOEnv.TRACE_FILE)

VARIABLES tid, l
tvars == <<vars, tid, l>>

Rng(s) == {s[i] : i \in DOMAIN s}
T      == Batch[tid]
Ev     == T.events[l + 1]
More   == l < Len(T.events)

(* The size clause is decided from the measured length, not from the         *)
(* driver's intention: a response is a stub iff its measure exceeds the      *)
(* configured limit (metadata_key is outside the clause).                    *)
RulesOf(t) == [i \in DOMAIN t.rules |->
                 [ret |-> t.rules[i].ret, dep |-> t.rules[i].dep, enabled |-> t.rules[i].enabled,
                  key |-> t.rules[i].key, mod |-> t.rules[i].mod, len |-> t.rules[i].len]]

S0(t) == [rules |-> [i \in DOMAIN t.rules |->
                       LET q == RulesOf(t)[i] IN
                       [ret |-> (IF q.ret \in {"over_fail", "at_fail"} THEN (IF q.len > t.limit THEN "over_fail" ELSE "fail")
                                 ELSE IF q.ret \in {"over_pass", "at_pass"} THEN (IF q.len > t.limit THEN "over_pass" ELSE "pass")
                                 ELSE IF q.ret = "over_info" THEN (IF q.len > t.limit THEN "over_info" ELSE "info")
                                 ELSE IF q.ret = "over_fingerprint" THEN (IF q.len > t.limit THEN "over_fingerprint" ELSE "fingerprint")
                                 ELSE IF q.ret = "over_metadata" THEN (IF q.len > t.limit THEN "over_metadata" ELSE "metadata")
                                 ELSE q.ret),
                        dep |-> q.dep, enabled |-> q.enabled, key |-> q.key, mod |-> q.mod]]]

InitFrom(t) ==
    /\ phase = "eval" /\ rules = S0(t).rules /\ processed = {} /\ order = <<>>
    /\ buckets = [h \in Headings |-> <<>>] /\ skips = <<>> /\ meta = {} /\ metakeys = {} /\ excs = {}
    /\ shown = [missing |-> FALSE, show |-> {}, vis |-> {}]
NextFrom(t) ==
    /\ phase' = "eval" /\ rules' = S0(t).rules /\ processed' = {} /\ order' = <<>>
    /\ buckets' = [h \in Headings |-> <<>>] /\ skips' = <<>> /\ meta' = {} /\ metakeys' = {} /\ excs' = {}
    /\ shown' = [missing |-> FALSE, show |-> {}, vis |-> {}]

(* What the response must hold about rule r, from the specification's state. *)
OccOf(r) == UNION {{[h |-> h, type |-> buckets[h][i].type, det |-> IF buckets[h][i].stub THEN "stub" ELSE "full"] :
                       i \in {j \in DOMAIN buckets[h] : buckets[h][j].r = r}} : h \in Headings}
ExpObs(r) ==
    [occ     |-> OccOf(r),
     nocc    |-> SumOver(Headings, r),
     skips   |-> InSkips(r),
     excs    |-> IF r \in excs THEN 1 ELSE 0,
     meta    |-> Cardinality({m \in meta : m.r = r}),
     metastub |-> \E m \in meta : m.r = r /\ m.stub,
     metakey |-> IF r \in metakeys THEN 1 ELSE 0]

ObsOf(e) ==
    [occ     |-> {[h |-> e.occ[i].h, type |-> e.occ[i].type, det |-> e.occ[i].det] : i \in DOMAIN e.occ},
     nocc    |-> Len(e.occ),
     skips   |-> e.skips,
     excs    |-> e.excs,
     meta    |-> e.meta,
     metastub |-> e.metastub,
     metakey |-> e.metakey]

FieldsOK(e) == \A i \in DOMAIN e.occ :
    e.occ[i].keyok /\ e.occ[i].compok /\ e.occ[i].tagsok /\ e.occ[i].linksok /\ e.occ[i].idok

(* constructor table: what the statement prescribes for one constructor call *)
CtorExpectL(c, lim) ==
    IF c.key \in {"empty", "none", "nonstr"} /\ c.haskey THEN "error"
    ELSE IF c.kw \in {"type", "keyname"} THEN "error"
    ELSE IF c.sized /\ c.len > lim THEN "stub"
    ELSE "full"
CtorExpect(c) == CtorExpectL(c, c.limit)

(* "the configured size limit" (insights/settings.py): the sources are read in *)
(* a fixed order - the packaged defaults, the system-wide file, the user's     *)
(* file, the directory's file - and a later source that sets the limit wins.   *)
(* layers[i] = 0: source i absent or silent about the limit.                   *)
RECURSIVE LastSet(_, _)
LastSet(layers, n) == IF n = 0 THEN 0 ELSE IF layers[n] # 0 THEN layers[n] ELSE LastSet(layers, n - 1)
ConfiguredLimit(layers) == LastSet(layers, Len(layers))

Accepts ==
    CASE Ev.ev = "att" -> Ev.r \in DOMAIN rules /\ Ev.r \notin processed
      [] Ev.ev = "obs" -> /\ processed = DOMAIN rules
                          /\ Ev.r \in DOMAIN rules
                          /\ ObsOf(Ev) = ExpObs(Ev.r)
                          /\ FieldsOK(Ev)
                          /\ (Ev.skips > 0 => Ev.skipnamesok)
                          /\ (Ev.excs > 0 => Ev.tb)
      [] Ev.ev = "fmt" -> /\ processed = DOMAIN rules
                          /\ \A i \in DOMAIN Ev.rules :
                               LET q == Ev.rules[i]
                                   so == {[h |-> q.occ[j].h, type |-> q.occ[j].type, det |-> q.occ[j].det] : j \in DOMAIN q.occ}
                               IN /\ so \subseteq OccOf(q.r)
                                  /\ Len(q.occ) = Cardinality(so)
                                  /\ q.skips <= InSkips(q.r)
                                  /\ q.meta <= Cardinality({m \in meta : m.r = q.r})
                                  /\ (Ev.all => (so = OccOf(q.r) /\ q.skips = InSkips(q.r)
                                                 /\ q.meta = Cardinality({m \in meta : m.r = q.r})))
      [] Ev.ev = "ctor" -> Ev.got = CtorExpect(Ev)
      \* a fresh process whose limit comes from the configuration sources, nothing set in-process
      [] Ev.ev = "ctorconf" -> /\ Ev.seen = ConfiguredLimit(Ev.layers)
                               /\ Ev.got = CtorExpectL(Ev, ConfiguredLimit(Ev.layers))
      [] OTHER -> FALSE

Apply ==
    CASE Ev.ev = "att" -> Process(Ev.r)
      [] OTHER -> UNCHANGED vars

DiagObs ==
    LET o == ObsOf(Ev)  x == ExpObs(Ev.r)  q == rules[Ev.r]
        feat == Outcome(q) \o ":" \o q.ret
    IN IF processed # DOMAIN rules THEN "ExactlyOneOutcome.rule-never-attempted"
       ELSE IF o.nocc + o.skips + o.excs + o.meta + o.metakey > 1 THEN "ExactlyOneOutcome.duplicate:" \o feat
       ELSE IF o.nocc + o.skips + o.excs + o.meta + o.metakey = 0 /\ Outcome(q) # "nothing" THEN "ExactlyOneOutcome.lost:" \o feat
       ELSE IF Outcome(q) = "nothing" /\ o.nocc + o.skips + o.excs + o.meta + o.metakey > 0 THEN "ExactlyOneOutcome.should-be-nothing:" \o feat
       ELSE IF Outcome(q) = "exception" /\ o.excs = 0 THEN "Rejected.not-an-error:" \o feat
       ELSE IF o.excs # x.excs THEN "Rejected.unexpected-exception:" \o feat
       ELSE IF o.skips # x.skips THEN "SkipNamesMissing:" \o feat
       ELSE IF o.occ # x.occ THEN
            (IF \E a \in o.occ, b \in x.occ : a.h = b.h /\ a.type = b.type /\ a.det # b.det THEN "StubOnOverflow:" \o feat
             ELSE "RightHeading:" \o feat)
       ELSE IF o.meta # x.meta \/ o.metakey # x.metakey THEN "RightHeading.metadata:" \o feat
       ELSE IF o.metastub # x.metastub THEN "StubOnOverflow.metadata:" \o feat
       ELSE IF ~FieldsOK(Ev) THEN "FieldsPresent:" \o feat
       ELSE IF Ev.skips > 0 /\ ~Ev.skipnamesok THEN "SkipNamesMissing.names:" \o feat
       ELSE IF Ev.excs > 0 /\ ~Ev.tb THEN "Rejected.no-traceback:" \o feat
       ELSE "obs.unknown"

Diagnose ==
    CASE Ev.ev = "att" -> "ExactlyOneOutcome.attempted-twice"
      [] Ev.ev = "obs" -> DiagObs
      [] Ev.ev = "fmt" -> "ShownSubset"
      [] Ev.ev = "ctorconf" -> IF Ev.seen # ConfiguredLimit(Ev.layers) THEN "ConfiguredLimit:later-source-does-not-win"
                               ELSE "ConfiguredLimit:" \o Ev.cls \o ":expected-" \o CtorExpectL(Ev, ConfiguredLimit(Ev.layers)) \o ":got-" \o Ev.got
      [] Ev.ev = "ctor" -> "Constructor:" \o Ev.cls \o ":key-" \o Ev.key \o ":kw-" \o Ev.kw \o ":expected-" \o CtorExpect(Ev) \o ":got-" \o Ev.got
      [] Ev.ev = "escaped" -> "NoEscape"
      [] Ev.ev = "unattributed" -> "ExactlyOneOutcome.entry-of-no-rule"
      [] OTHER -> "unknown-event"

Advance ==
    IF tid < Len(Batch)
      THEN tid' = tid + 1 /\ l' = 0 /\ NextFrom(Batch[tid + 1])
      ELSE tid' = Len(Batch) + 1 /\ l' = 0 /\ UNCHANGED vars

TraceInit == tid = 1 /\ l = 0 /\ InitFrom(Batch[1])
TraceNext ==
    /\ tid <= Len(Batch)
    /\ IF ~More
         THEN TLCSet(2, TLCGet(2) + l) /\ Advance
         ELSE IF Accepts
           THEN Apply /\ l' = l + 1 /\ tid' = tid
           ELSE /\ TLCSet(1, TLCGet(1) \cup {[id |-> T.id, line |-> l + 1, clause |-> Diagnose]})
                /\ TLCSet(2, TLCGet(2) + l)
                /\ Advance
TraceSpec == TraceInit /\ [][TraceNext]_tvars

ASSUME TLCSet(1, {}) /\ TLCSet(2, 0)

Post ==
    /\ \A r \in TLCGet(1) : PrintT(<<"REJ", ToJson(r)>>)
    /\ PrintT(<<"STAT", ToJson([traces |-> Len(Batch), events |-> TLCGet(2)])>>)
=============================================================================
