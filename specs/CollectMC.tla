------------------------------ MODULE CollectMC ------------------------------
(* Model-checking wrapper of Collect: emits the layouts, the (layout, path)  *)
(* pairs with the model's resolution, and the deny-list cases, for the       *)
(* replay driver (harness/drive_collect.py).                                 *)
EXTENDS Collect, Json

Key(l) == [l1 |-> l.l1, l2 |-> l.l2, via |-> l.via, outat |-> l.outat]

EmitPath ==
    /\ (sub = "path" /\ path = <<>> /\ w.rest = lay.root /\ w.hops = 0 /\ w.cur = Top) =>
          PrintT(<<"CASE", ToJson([t |-> "layout", key |-> Key(lay), fs |-> lay.fs, root |-> lay.root,
                                   out |-> lay.out])>>)
    /\ (sub = "path" /\ path # <<>> /\ Stopped(w) /\ ~yielded /\ w.status # "abovetop") =>
          PrintT(<<"CASE", ToJson([t |-> "path", key |-> Key(lay), path |-> path, status |-> w.status,
                                   node |-> IF w.status = "ok" THEN w.cur ELSE 0, hops |-> w.hops,
                                   region |-> IF w.status = "ok" THEN Region(lay, w.cur) ELSE "-",
                                   file |-> (w.status = "ok" /\ lay.fs[w.cur].k = "file")])>>)

EmitDeny ==
    (sub = "deny" /\ dn.phase = "done") =>
          PrintT(<<"CASE", ToJson([t |-> "deny", factory |-> dn.c.factory, comp |-> dn.c.comp,
                                   saveas |-> dn.c.saveas, wr |-> dn.wr, entry |-> dn.c.entry,
                                   files |-> dn.c.files, commands |-> dn.c.commands, comps |-> dn.c.comps,
                                   items |-> CaseItems(dn.c), acc |-> dn.acc])>>)

Emit == EmitPath /\ EmitDeny
=============================================================================
