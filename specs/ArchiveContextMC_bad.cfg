SPECIFICATION Spec
CONSTANTS
  Dirs = {}
  Leaves = {}
  MaxFiles = 0
  MaxDepth = 1
  Packs = {"text", "badgz", "dir", "tar", "zip"}
  Wraps = {FALSE}
  Evils = {"none"}
  Overrides = {"none"}
  Wheres = {"plain"}
  Injects = {"none"}
  Plugs = {"none"}
  Modes = {"api"}
  Spaces = {"none"}
  Mech = "code"
  Admit = {}
INVARIANT TypeOK
INVARIANT MarkerPriority
INVARIANT TriedInOrder
INVARIANT DefaultWhenNoMarker
INVARIANT RootInsideInput
INVARIANT OverrideWins
INVARIANT CreateAllowed
INVARIANT ListedExactly
INVARIANT BrokerSeededExactly
INVARIANT ExtractionStaysInTempDir
INVARIANT TempDirRemoved
INVARIANT ContextDeterministic
INVARIANT Ends
CONSTRAINT Emit
CHECK_DEADLOCK FALSE
